(* C03: proofs about the exception-capture protocol model (ExcModel). *)
From OTV Require Import Lib.Tac Lib.Conc ExcModel.
Local Open Scope Z_scope.

Definition is_t (p : epc) : bool := match p with TNew | TRunning | TCatch | TStoreExc | TCancelSelf | TDone => true | _ => false end.
Definition ndp (p : epc) : bool := match p with TNew | TRunning | TCatch | TStoreExc | TCancelSelf => true | _ => false end.
Definition pendp (p : epc) : bool := match p with TStoreExc => true | _ => false end.
Definition nd (l : el) : bool := ndp (e_pc l).
Definition pend (l : el) : bool := pendp (e_pc l).
Definition past_catch (l : el) : bool := match e_pc l with TStoreExc | TCancelSelf | TDone => true | _ => false end.
Definition b2z (b : bool) : Z := if b then 1 else 0.

Definition wpc (ls : list el) (n : nat) : epc := match nth_error ls n with Some l => e_pc l | None => TDone end.

Definition EInv (n : nat) (c : eg * list el) : Prop :=
  let g := fst c in let ls := snd c in
  length ls = S n /\
  (forall i l, nth_error ls i = Some l -> is_t (e_pc l) = (i <? n)%nat) /\
  (forall i l, nth_error ls i = Some l -> (e_thrown l = true -> e_throws l = true /\ e_ran l = true) /\
                                           (match e_pc l with TCatch | TStoreExc | TCancelSelf => e_thrown l = true | TNew => e_thrown l = false | TRunning => e_thrown l = false /\ e_ran l = true
                                                             | TDone => True | _ => e_thrown l = false end)) /\
  match wpc ls n with
  | WWait =>
      e_refs g = Z.of_nat (count nd ls) /\
      (e_cancel g = 0 \/ e_cancel g = 1) /\
      Z.of_nat (count pend ls) + b2z (negb (e_exc g =? 0)) = e_cancel g /\
      (e_cancel g = 0 -> forall i l, nth_error ls i = Some l -> e_thrown l = true -> e_pc l = TCatch) /\
      (e_exc g <> 0 -> exists l, nth_error ls (Z.to_nat (e_exc g - 1)) = Some l /\ 1 <= e_exc g <= Z.of_nat n /\ e_thrown l = true)
  | WReset r | WDone r =>
      (forall i l, nth_error ls i = Some l -> (i < n)%nat -> e_pc l = TDone) /\
      (r <> 0 -> exists l, nth_error ls (Z.to_nat (r - 1)) = Some l /\ 1 <= r <= Z.of_nat n /\ e_thrown l = true) /\
      ((exists i l, nth_error ls i = Some l /\ e_thrown l = true) -> r <> 0) /\
      e_refs g = 0 /\
      (match wpc ls n with WDone _ => e_cancel g = 0 /\ e_exc g = 0 | _ => True end)
  | _ => False
  end.

Lemma nth_set_nth {A} (ls : list A) i l l0 j :
  nth_error ls i = Some l0 -> nth_error (set_nth ls i l) j = if Nat.eqb j i then Some l else nth_error ls j.
Proof.
  intros H. destruct (Nat.eqb j i) eqn:E.
  - apply Nat.eqb_eq in E. subst. eapply nth_error_set_nth_eq; eauto.
  - apply Nat.eqb_neq in E. apply nth_error_set_nth_neq. auto.
Qed.

Lemma count_zero_all {A} (P : A -> bool) ls : count P ls = 0%nat -> forall i l, nth_error ls i = Some l -> P l = false.
Proof. apply count_zero_forall. Qed.

Lemma count_all_false {A} (P : A -> bool) ls : (forall i l, nth_error ls i = Some l -> P l = false) -> count P ls = 0%nat.
Proof.
  unfold count. induction ls as [|x ls IH]; intros H; cbn; auto.
  rewrite (H 0%nat x eq_refl). apply IH. intros i l Hl. apply (H (S i) l Hl).
Qed.

Lemma wpc_other ls i l' l0 n : nth_error ls i = Some l0 -> i <> n -> wpc (set_nth ls i l') n = wpc ls n.
Proof. intros H Hn. unfold wpc. rewrite (nth_set_nth ls i l' l0 n H). assert (Nat.eqb n i = false) by (apply Nat.eqb_neq; auto). rewrite H0. reflexivity. Qed.

(* a task's step while the waiter is still waiting *)
Lemma task_step n g ls i l g' l' :
  EInv n (g, ls) -> nth_error ls i = Some l -> (i < n)%nat -> wpc ls n = WWait ->
  is_t (e_pc l') = true ->
  ((e_thrown l' = true -> e_throws l' = true /\ e_ran l' = true) /\
   (match e_pc l' with TCatch | TStoreExc | TCancelSelf => e_thrown l' = true | TNew => e_thrown l' = false | TRunning => e_thrown l' = false /\ e_ran l' = true
                       | TDone => True | _ => e_thrown l' = false end)) ->
  (e_thrown l = true -> e_thrown l' = true) ->
  e_refs g' = e_refs g - b2z (ndp (e_pc l)) + b2z (ndp (e_pc l')) ->
  (e_cancel g' = 0 \/ e_cancel g' = 1) ->
  Z.of_nat (count pend ls) - b2z (pendp (e_pc l)) + b2z (pendp (e_pc l')) + b2z (negb (e_exc g' =? 0)) = e_cancel g' ->
  (e_cancel g' = 0 -> e_cancel g = 0 /\ (e_thrown l' = true -> e_pc l' = TCatch)) ->
  (e_exc g' <> 0 -> e_exc g' = e_exc g \/ (e_exc g' = Z.of_nat i + 1 /\ e_thrown l' = true)) ->
  EInv n (g', set_nth ls i l').
Proof.
  intros (I1 & I2 & I3 & I4) Hl Hi Hw Hrole Hloc Hmono Hrefs Hc01 HW HC1 HC4.
  unfold EInv in *. cbn [fst snd] in *. rewrite Hw in I4. destruct I4 as (R & C0 & W & C1 & C4).
  assert (Hn : forall j, nth_error (set_nth ls i l') j = if Nat.eqb j i then Some l' else nth_error ls j) by (intros; eapply nth_set_nth; eauto).
  assert (Hnd := count_set_nth nd ls i l' l Hl). assert (Hpd := count_set_nth pend ls i l' l Hl).
  split; [rewrite set_nth_length; auto|]. split; [|split].
  - intros j lj. rewrite Hn. destruct (Nat.eqb j i) eqn:E; [|apply I2]. intros X. inv X. apply Nat.eqb_eq in E. subst. rewrite Hrole. symmetry. apply Nat.ltb_lt. auto.
  - intros j lj. rewrite Hn. destruct (Nat.eqb j i) eqn:E; [|apply I3]. intros X. inv X. exact Hloc.
  - rewrite (wpc_other ls i l' l n Hl) by lia. rewrite Hw.
    split; [|split; [|split; [|split]]].
    + rewrite Hrefs, R. change (nd l) with (ndp (e_pc l)) in Hnd. change (nd l') with (ndp (e_pc l')) in Hnd. unfold b2z. destruct (ndp (e_pc l)), (ndp (e_pc l')); lia.
    + exact Hc01.
    + rewrite <- HW. change (pend l) with (pendp (e_pc l)) in Hpd. change (pend l') with (pendp (e_pc l')) in Hpd. unfold b2z in *. destruct (pendp (e_pc l)), (pendp (e_pc l')); lia.
    + intros Hz j lj. destruct (HC1 Hz) as [Hz0 Hown]. rewrite Hn. destruct (Nat.eqb j i) eqn:E.
      * intros X. inv X. exact Hown.
      * apply C1; auto.
    + intros Hne. destruct (HC4 Hne) as [Heq|[Heq Hth]].
      * rewrite Heq in *. destruct (C4 Hne) as (le & Hle & Hrange & Hthr). rewrite Hn.
        destruct (Nat.eqb (Z.to_nat (e_exc g - 1)) i) eqn:E.
        -- apply Nat.eqb_eq in E. rewrite E in Hle. rewrite Hl in Hle. inv Hle. exists l'. auto.
        -- exists le. auto.
      * rewrite Heq. replace (Z.to_nat (Z.of_nat i + 1 - 1)) with i by lia. rewrite Hn, Nat.eqb_refl. exists l'. split; auto. split; [lia|auto].
Qed.

Lemma einv_step n c i c' ev : EInv n c -> step_at estep c i = Some (c', ev) -> EInv n c'.
Proof.
  destruct c as [g ls]. intros HI Hs. unfold step_at in Hs. cbn [fst snd] in Hs.
  destruct (nth_error ls i) as [l|] eqn:Hl; [|discriminate].
  destruct (estep i g l) as [[[g' l'] e]|] eqn:Hm; [|discriminate]. inv Hs.
  assert (HI' := HI). destruct HI' as (I1 & I2 & I3 & I4). cbn [fst snd] in *.
  assert (Hrole := I2 _ _ Hl). destruct (I3 _ _ Hl) as [Lth Lpc].
  assert (Hilt : (i < S n)%nat) by (rewrite <- I1; apply nth_error_Some; congruence).
  destruct (is_t (e_pc l)) eqn:Et.
  - (* a task *)
    symmetry in Hrole. apply Nat.ltb_lt in Hrole.
    assert (Hw : wpc ls n = WWait).
    { destruct (wpc ls n) eqn:Ew; try contradiction; auto.
      - destruct I4 as (Hall & _). unfold estep in Hm. rewrite (Hall i l Hl Hrole) in Hm. discriminate.
      - destruct I4 as (Hall & _). unfold estep in Hm. rewrite (Hall i l Hl Hrole) in Hm. discriminate. }
    rewrite Hw in I4. destruct I4 as (R & C0 & W & C1 & C4).
    assert (Hpd : (1 <= count pend ls)%nat \/ pend l = false).
    { destruct (pend l) eqn:Ep; auto. left. eapply count_pos_exists; eauto. }
    unfold estep in Hm. destruct (e_pc l) eqn:Hpc; cbn in Et; try discriminate.
    + (* TNew *)
      destruct (e_cancel g =? 0) eqn:Ec; inv Hm.
      * eapply task_step; eauto; rewrite ?Hpc; cbn [e_pc e_thrown e_throws e_ran e_refs e_cancel e_exc ndp pendp b2z is_t]; auto; try lia.
        -- split; [intros X; rewrite Lpc in X; discriminate | split; auto].
        -- intros Hz. split; auto. intros X. rewrite Lpc in X. discriminate.
      * eapply task_step; eauto; rewrite ?Hpc; cbn [e_pc e_thrown e_throws e_ran e_refs e_cancel e_exc ndp pendp b2z is_t]; auto; try lia.
    + (* TRunning *)
      destruct Lpc as [Lt Lr]. destruct (e_throws l) eqn:Eth; inv Hm.
      * eapply task_step; eauto; rewrite ?Hpc; cbn [e_pc e_thrown e_throws e_ran e_refs e_cancel e_exc ndp pendp b2z is_t]; auto; try lia.
      * eapply task_step; eauto; rewrite ?Hpc; cbn [e_pc e_thrown e_throws e_ran e_refs e_cancel e_exc ndp pendp b2z is_t]; auto; try lia.
        intros Hz. split; auto. intros X. rewrite Lt in X. discriminate.
    + (* TCatch *)
      destruct (e_cancel g =? 0) eqn:Ec; inv Hm.
      * assert (Hz : e_cancel g = 0) by lia. rewrite Hz in W.
        assert (Hp0 : count pend ls = 0%nat /\ e_exc g = 0).
        { unfold b2z in W. destruct (e_exc g =? 0) eqn:Ee; cbn in W; lia. }
        destruct Hp0 as [Hp0 He0].
        eapply task_step; eauto; rewrite ?Hpc; cbn [e_pc e_thrown e_throws e_ran e_refs e_cancel e_exc ndp pendp b2z is_t]; auto; try lia.
      * eapply task_step; eauto; rewrite ?Hpc; cbn [e_pc e_thrown e_throws e_ran e_refs e_cancel e_exc ndp pendp b2z is_t]; auto; try lia.
    + (* TStoreExc *)
      inv Hm.
      assert (Hp1 : (1 <= count pend ls)%nat) by (eapply count_pos_exists; eauto; unfold pend, pendp; rewrite Hpc; reflexivity).
      assert (He0 : e_exc g = 0 /\ e_cancel g = 1 /\ count pend ls = 1%nat).
      { unfold b2z in W. destruct (e_exc g =? 0) eqn:Ee; cbn in W; destruct C0; lia. }
      destruct He0 as (He0 & Hc1 & Hp).
      eapply task_step; eauto; rewrite ?Hpc; cbn [e_pc e_thrown e_throws e_ran e_refs e_cancel e_exc ndp pendp b2z is_t]; auto; try lia.
      * rewrite Hp. assert ((Z.of_nat i + 1 =? 0) = false) by lia. rewrite H. cbn. lia.
    + (* TCancelSelf *)
      inv Hm. eapply task_step; eauto; rewrite ?Hpc; cbn [e_pc e_thrown e_throws e_ran e_refs e_cancel e_exc ndp pendp b2z is_t]; auto; try lia.
      intros Hz. split; auto. intros X. assert (Y := C1 Hz i l Hl X). congruence.
  - (* the waiter *)
    symmetry in Hrole. apply Nat.ltb_ge in Hrole. assert (i = n) by lia. subst i.
    assert (Hwl : wpc ls n = e_pc l) by (unfold wpc; rewrite Hl; reflexivity).
    assert (Hn : forall j, nth_error (set_nth ls n l') j = if Nat.eqb j n then Some l' else nth_error ls j) by (intros; eapply nth_set_nth; eauto).
    assert (Hw' : wpc (set_nth ls n l') n = e_pc l') by (unfold wpc; rewrite Hn, Nat.eqb_refl; reflexivity).
    unfold estep in Hm. destruct (e_pc l) eqn:Hpc; cbn in Et; try discriminate.
    + (* WWait *)
      rewrite Hwl in I4. destruct I4 as (R & C0 & W & C1 & C4).
      destruct (e_refs g =? 0) eqn:Er; inversion Hm as [[Eg El Ee]]; clear Hm Ee; subst g' l'.
      * unfold EInv. cbn [fst snd]. rewrite Hw'. cbn [e_pc].
        assert (Hz : count nd ls = 0%nat) by lia.
        assert (Hall : forall j lj, nth_error ls j = Some lj -> (j < n)%nat -> e_pc lj = TDone).
        { intros j lj Hj Hjn. assert (X := count_zero_all nd ls Hz j lj Hj). assert (Y := I2 j lj Hj).
          assert ((j <? n)%nat = true) by (apply Nat.ltb_lt; auto). rewrite H in Y. unfold nd, ndp in X. destruct (e_pc lj); cbn in *; congruence. }
        assert (Hp0 : count pend ls = 0%nat).
        { apply count_all_false. intros j lj Hj. assert (X := count_zero_all nd ls Hz j lj Hj). unfold nd, pend, ndp, pendp in *. destruct (e_pc lj); auto; discriminate. }
        split; [rewrite set_nth_length; auto|]. split; [|split; [|split; [|split; [|split; [|split]]]]].
        -- intros j lj. rewrite Hn. destruct (Nat.eqb j n) eqn:E; [|apply I2]. intros X. inv X. apply Nat.eqb_eq in E. subst. cbn. symmetry. apply Nat.ltb_irrefl.
        -- intros j lj. rewrite Hn. destruct (Nat.eqb j n) eqn:E; [|apply I3]. intros X. inv X. cbn. split; [intros Y; congruence | exact Lpc].
        -- intros j lj. rewrite Hn. destruct (Nat.eqb j n) eqn:E; [apply Nat.eqb_eq in E; lia | apply Hall].
        -- intros Hne. destruct (C4 Hne) as (le & Hle & Hrange & Hthr). rewrite Hn.
           destruct (Nat.eqb (Z.to_nat (e_exc g - 1)) n) eqn:E; [apply Nat.eqb_eq in E; lia|]. eauto.
        -- intros (j & lj & Hj & Hthr). rewrite Hn in Hj. destruct (Nat.eqb j n) eqn:E.
           ++ inv Hj. cbn in Hthr. congruence.
           ++ intros He. apply Nat.eqb_neq in E.
              assert (Hjn : (j < n)%nat). { assert (j < S n)%nat by (rewrite <- I1; apply nth_error_Some; congruence). lia. }
              destruct C0 as [Hc|Hc].
              ** assert (X := C1 Hc j lj Hj Hthr). rewrite (Hall j lj Hj Hjn) in X. discriminate.
              ** rewrite Hp0, He, Hc in W. cbn in W. lia.
        -- lia.
        -- exact I.
      * (* blocked: nothing changes *)
        unfold EInv. cbn [fst snd]. rewrite Hw'. rewrite Hpc.
        split; [rewrite set_nth_length; auto|]. split; [|split].
        -- intros j lj. rewrite Hn. destruct (Nat.eqb j n) eqn:E; [|apply I2]. intros X. inv X. apply Nat.eqb_eq in E. subst. apply (I2 _ _ Hl).
        -- intros j lj. rewrite Hn. destruct (Nat.eqb j n) eqn:E; [|apply I3]. intros X. inv X. apply (I3 _ _ Hl).
        -- assert (Hnd := count_set_nth nd ls n l l Hl). assert (Hpd := count_set_nth pend ls n l l Hl).
           split; [|split; [|split; [|split]]]; auto.
           ++ rewrite R. destruct (nd l); lia.
           ++ rewrite <- W. destruct (pend l); lia.
           ++ intros Hz j lj. rewrite Hn. destruct (Nat.eqb j n) eqn:E; [intros X; inv X; apply Nat.eqb_eq in E; subst; apply (C1 Hz _ _ Hl) | apply C1; auto].
           ++ intros Hne. destruct (C4 Hne) as (le & Hle & Hrange & Hthr). rewrite Hn.
              destruct (Nat.eqb (Z.to_nat (e_exc g - 1)) n) eqn:E; [apply Nat.eqb_eq in E; lia|]. eauto.
    + (* WReset *)
      inversion Hm as [[Eg El Ee]]; clear Hm Ee; subst g' l'. rewrite Hwl in I4. destruct I4 as (Hall & Hr & Hex & R & _).
      unfold EInv. cbn [fst snd]. rewrite Hw'. cbn [e_pc e_refs e_cancel e_exc].
      split; [rewrite set_nth_length; auto|]. split; [|split; [|split; [|split; [|split; [|split]]]]]; auto.
      * intros j lj. rewrite Hn. destruct (Nat.eqb j n) eqn:E; [|apply I2]. intros X. inv X. apply Nat.eqb_eq in E. subst. cbn. symmetry. apply Nat.ltb_irrefl.
      * intros j lj. rewrite Hn. destruct (Nat.eqb j n) eqn:E; [|apply I3]. intros X. inv X. cbn. split; [intros Y; congruence | exact Lpc].
      * intros j lj. rewrite Hn. destruct (Nat.eqb j n) eqn:E; [apply Nat.eqb_eq in E; lia | apply Hall].
      * intros Hne. destruct (Hr Hne) as (le & Hle & Hrange & Hthr). rewrite Hn.
        destruct (Nat.eqb (Z.to_nat (res - 1)) n) eqn:E; [apply Nat.eqb_eq in E; lia|]. eauto.
      * intros (j & lj & Hj & Hthr). apply Hex. rewrite Hn in Hj. destruct (Nat.eqb j n) eqn:E; [inv Hj; cbn in Hthr; congruence | eauto].
Qed.

Lemma einv_init throws : EInv (length throws) (einit throws).
Proof.
  unfold EInv, einit. cbn [fst snd e_refs e_cancel e_exc].
  set (ts := map (fun b => mkel TNew b false false) throws).
  assert (Hlen : length ts = length throws) by (unfold ts; apply map_length).
  assert (Hth : forall i l, nth_error (ts ++ [mkel WWait false false false]) i = Some l ->
                 ((i < length throws)%nat /\ e_pc l = TNew /\ e_thrown l = false) \/ (i = length throws /\ l = mkel WWait false false false)).
  { intros i l H. destruct (lt_dec i (length ts)) as [L|L].
    - left. rewrite nth_error_app1 in H by auto. split; [lia|]. unfold ts in H. rewrite nth_error_map in H.
      destruct (nth_error throws i); inv H. auto.
    - right. rewrite nth_error_app2 in H by lia. destruct (i - length ts)%nat as [|k] eqn:E; cbn in H; [inv H; split; [lia|auto] | destruct k; discriminate]. }
  assert (Hw : wpc (ts ++ [mkel WWait false false false]) (length throws) = WWait).
  { unfold wpc. rewrite nth_error_app2 by lia. rewrite Hlen, Nat.sub_diag. reflexivity. }
  assert (Hcnt : count nd (ts ++ [mkel WWait false false false]) = length throws /\ count pend (ts ++ [mkel WWait false false false]) = 0%nat).
  { unfold count. rewrite !filter_app, !app_length. cbn. unfold ts. clear. induction throws as [|b tl IH]; cbn; [auto|]. destruct IH. split; lia. }
  destruct Hcnt as [Hc1 Hc2].
  split; [rewrite app_length, Hlen; cbn; lia|]. split; [|split].
  - intros i l H. destruct (Hth i l H) as [(L & P & _)|(L & ->)]; [rewrite P; cbn; symmetry; apply Nat.ltb_lt; auto | subst; cbn; symmetry; apply Nat.ltb_irrefl].
  - intros i l H. destruct (Hth i l H) as [(L & P & T)|(L & ->)]; [rewrite P, T; split; [discriminate|reflexivity] | cbn; split; [discriminate|reflexivity]].
  - rewrite Hw. rewrite Hc1, Hc2. cbn. split; [reflexivity|]. split; [auto|]. split; [reflexivity|]. split.
    + intros _ i l H T. destruct (Hth i l H) as [(_ & _ & T')|(_ & ->)]; [congruence | discriminate].
    + intros X. contradiction.
Qed.

Lemma ereach_inv throws c : reach estep (einit throws) c -> EInv (length throws) c.
Proof.
  intros Hr. induction Hr as [|c1 i c2 ev Hr IH Hs]; [apply einv_init | eapply einv_step; eauto].
Qed.
