(* C15: executable sequential model of the reservable item_buffer
   (include/oneapi/tbb/detail/_flow_graph_item_buffer_impl.h) as used by buffer_node, queue_node and sequencer_node
   (include/oneapi/tbb/flow_graph.h: internal_push / internal_pop / internal_reserve / internal_release / internal_consume).
   The ring is modelled by its window: [items] lists the slots my_head .. my_tail-1 in order; a slot is
   None (no_item) or Some (v, r) with r = true for reserved_item.  The capacity my_array_size is tracked because
   growth decisions depend on it (white-box tie). *)
From OTV Require Import Lib.Tac.
Local Open Scope Z_scope.

Record ibuf := mkib { b_hd : Z; b_items : list (option (Z * bool)); b_capacity : Z; b_reserved : bool }.

Definition b_tl (b : ibuf) : Z := b_hd b + Z.of_nat (length (b_items b)).
Definition b_size (b : ibuf) : Z := Z.of_nat (length (b_items b)).

(* grow_my_array: double (at least) until minimum_size fits *)
Fixpoint grow_to (fuel : nat) (c m : Z) : Z :=
  match fuel with O => c | S f => if c <? m then grow_to f (2 * c) m else c end.
Definition grown (c m : Z) : Z := grow_to 70 (2 * c) m.

Definition KBuffer := 0. Definition KQueue := 1. Definition KSequencer := 2.

Definition front_valid (b : ibuf) : option (Z * bool) := match b_items b with Some x :: _ => Some x | _ => None end.

(* push_back *)
Definition push_back (b : ibuf) (v : Z) : ibuf :=
  let c := if b_size b >=? b_capacity b then grown (b_capacity b) (b_size b + 1) else b_capacity b in
  mkib (b_hd b) (b_items b ++ [Some (v, false)]) c (b_reserved b).

(* sequencer_node::internal_push with tag = value *)
Fixpoint set_slot (l : list (option (Z * bool))) (n : nat) (x : option (Z * bool)) : list (option (Z * bool)) :=
  match l, n with
  | [], _ => []
  | _ :: tl, O => x :: tl
  | y :: tl, S m => y :: set_slot tl m x
  end.
Definition seq_push (b : ibuf) (tag : Z) : ibuf * Z :=
  if tag <? b_hd b then (b, 0)
  else
    let need := tag + 1 - b_hd b in
    let items := if need >? b_size b then b_items b ++ repeat None (Z.to_nat (need - b_size b)) else b_items b in
    let sz := Z.of_nat (length items) in
    let c := if sz >? b_capacity b then grown (b_capacity b) sz else b_capacity b in
    match nth_error items (Z.to_nat (tag - b_hd b)) with
    | Some None => (mkib (b_hd b) (set_slot items (Z.to_nat (tag - b_hd b)) (Some (tag, false))) c (b_reserved b), 1)
    | _ => (mkib (b_hd b) items c (b_reserved b), 0)        (* place_item fails on an occupied slot; my_tail has moved *)
    end.

(* pop_front (queue / sequencer): refused while a reservation is pending *)
Definition pop_front (b : ibuf) : ibuf * Z :=
  if b_reserved b then (b, -1)
  else match b_items b with
       | Some (v, _) :: tl => (mkib (b_hd b + 1) tl (b_capacity b) false, v)
       | _ => (b, -1)
       end.

(* pop_back (buffer_node): the last slot, unless it is the reserved one *)
Definition pop_back (b : ibuf) : ibuf * Z :=
  match rev (b_items b) with
  | Some (v, false) :: tl => (mkib (b_hd b) (rev tl) (b_capacity b) (b_reserved b), v)
  | _ => (b, -1)
  end.

Definition reserve_front (b : ibuf) : ibuf * Z :=
  if b_reserved b then (b, -1)
  else match b_items b with
       | Some (v, _) :: tl => (mkib (b_hd b) (Some (v, true) :: tl) (b_capacity b) true, v)
       | _ => (b, -1)
       end.

(* release_front / consume_front: only called while a reservation is pending (the scripts respect the protocol) *)
Definition release_front (b : ibuf) : ibuf * Z :=
  if b_reserved b then
    match b_items b with
    | Some (v, _) :: tl => (mkib (b_hd b) (Some (v, false) :: tl) (b_capacity b) false, 1)
    | _ => (b, 0)
    end
  else (b, 0).
Definition consume_front (b : ibuf) : ibuf * Z :=
  if b_reserved b then
    match b_items b with
    | Some _ :: tl => (mkib (b_hd b + 1) tl (b_capacity b) false, 1)
    | _ => (b, 0)
    end
  else (b, 0).

Definition ib_init : ibuf := mkib 0 [] 4 false.

(* node operations: 1 put v | 2 try_get | 3 try_reserve | 4 try_release | 5 try_consume; results: put -> 1/0, get/reserve -> value or -1 *)
Definition node_step (kind : Z) (b : ibuf) (op v : Z) : ibuf * Z :=
  if op =? 1 then (if kind =? KSequencer then seq_push b v else (push_back b v, 1))
  else if op =? 2 then (if kind =? KBuffer then pop_back b else pop_front b)
  else if op =? 3 then reserve_front b
  else if op =? 4 then release_front b
  else if op =? 5 then consume_front b
  else (b, 0).

(* dump: head, tail, capacity, reserved, then per slot: state (0 none / 1 item / 2 reserved) and value *)
Definition ib_dump (b : ibuf) : list Z :=
  b_hd b :: b_tl b :: b_capacity b :: (if b_reserved b then 1 else 0) ::
  flat_map (fun s : option (Z * bool) => match s with None => [0; 0] | Some (v, r) => [if (r : bool) then 2 else 1; v] end) (b_items b).

Fixpoint run_buf_go (fuel : nat) (kind : Z) (l : list Z) (b : ibuf) : list Z :=
  match fuel with
  | O => []
  | S f =>
    match l with
    | op :: v :: tl =>
        if op =? 9 then ib_dump b ++ run_buf_go f kind tl b
        else let '(b', r) := node_step kind b op v in r :: run_buf_go f kind tl b'
    | _ => []
    end
  end.
(* input: kind, then (op v)*; the scripts never issue release/consume without a pending reservation *)
Definition run_buf (l : list Z) : list Z :=
  match l with
  | kind :: tl => run_buf_go (length tl) kind tl ib_init
  | [] => []
  end.
