From OTV Require Import Lib.Tac Lib.Conc OnceModel.
Local Open Scope Z_scope.

(* ---------- bounded exhaustive exploration (finite statements about small configurations) ---------- *)
Fixpoint all_scheds (nthreads len : nat) : list (list nat) :=
  match len with
  | O => [[]]
  | S k => flat_map (fun s => map (fun t => t :: s) (seq 0 nthreads)) (all_scheds nthreads k)
  end.

(* outcome of one schedule prefix completed round-robin *)
Definition once_ok (throws : list (list bool)) (sched : list nat) : bool :=
  let '(c1, _) := run ostep (oinit throws) sched in
  let '(c2, _, ok) := finish ostep 600 c1 600 in
  let n_ok := length (filter (fun l => match ol_pc l with ORetOk => true | _ => false end) (snd c2)) in
  let n_exc := length (filter (fun l => match ol_pc l with ORetExc => true | _ => false end) (snd c2)) in
  let n_throw := length (filter (fun b => b) (concat throws)) in
  ok && (o_success (fst c2) =? 1) && (o_bad_access (fst c2) =? 0)
  && Nat.eqb (n_ok + n_exc) (length throws)
  && match o_word (fst c2) with Done => true | _ => false end.

Definition explore_once (throws : list (list bool)) (len : nat) : bool :=
  forallb (once_ok throws) (all_scheds (length throws) len).

(* 2 threads, nobody throws / the first attempt throws; 3 threads, first attempt throws: every interleaving prefix of
   the given length, completed round-robin, ends with exactly one success, every caller returned (those whose attempt
   threw with the exception), state done, and no access to a destroyed runner *)
Lemma once_small_configs :
  explore_once [[false]; [false]] 12 = true /\
  explore_once [[true; false]; [false]] 12 = true /\
  explore_once [[true; false]; [false]; [false]] 8 = true.
Proof. repeat split; vm_compute; reflexivity. Qed.
