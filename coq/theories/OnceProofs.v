From OTV Require Import Lib.Tac Lib.Conc OnceModel.
Local Open Scope Z_scope.

Definition inwin (r : nat) (l : oloc) : bool :=
  match ol_pc l with OHelpPin r' | OHelpSub r' => Nat.eqb r' r | _ => false end.
Definition pinned (r : nat) (l : oloc) : bool :=
  match ol_pc l with OHelpSub r' | OHelpAssist r' | OHelpUnpin r' => Nat.eqb r' r | _ => false end.
Definition winning (l : oloc) : bool := match ol_pc l with OWinRun _ | OWinSet _ => true | _ => false end.
Definition owns (l : oloc) : bool := match ol_pc l with OWinRun _ | OWinSet _ | OWinDtor _ => true | _ => false end.
Definition setdone (l : oloc) : bool := match ol_pc l with OWinSet true => true | _ => false end.
Definition retok (l : oloc) : bool := match ol_pc l with ORetOk => true | _ => false end.

Definition at_thread (ls : list oloc) (i : nat) (P : oloc -> bool) : Prop := exists l, nth_error ls i = Some l /\ P l = true.

Definition OInv (c : oshared * list oloc) : Prop :=
  let g := fst c in let ls := snd c in
  length (o_refcount g) = length ls /\ length (o_alive g) = length ls /\ length (o_fdone g) = length ls /\
  (* the word *)
  (match o_word g with
   | Running w k => at_thread ls w winning /\ k = Z.of_nat (count (inwin w) ls) /\ (forall r, r <> w -> count (inwin r) ls = 0%nat)
   | _ => forall r, count (inwin r) ls = 0%nat
   end) /\
  (* a thread that believes it is the winner is the one named in the word *)
  (forall i, at_thread ls i winning -> exists k, o_word g = Running i k) /\
  (* whoever is inside the window of, or pinned to, runner r: r's owner still owns a live runner, and its
     m_ref_count is the number of pinned helpers *)
  (forall r, (1 <= count (inwin r) ls \/ 1 <= count (pinned r) ls)%nat -> at_thread ls r owns /\ getbl (o_alive g) r = true) /\
  (forall r, at_thread ls r owns -> getr (o_refcount g) r = Z.of_nat (count (pinned r) ls) /\ getbl (o_alive g) r = true) /\
  o_bad_access g = 0 /\
  (* the user function completed successfully at most once; done is final *)
  o_success g = (match o_word g with Done => 1 | _ => Z.of_nat (count setdone ls) end) /\
  (forall i, at_thread ls i retok -> o_word g = Done).

(* ---------- bounded exhaustive exploration (finite statements about small configurations) ---------- *)
Fixpoint all_scheds (nthreads len : nat) : list (list nat) :=
  match len with
  | O => [[]]
  | S k => flat_map (fun s => map (fun t => t :: s) (seq 0 nthreads)) (all_scheds nthreads k)
  end.

(* outcome of one schedule prefix completed round-robin *)
Definition once_ok (throws : list (list bool)) (sched : list nat) : bool :=
  let '(c1, _) := run ostep (oinit throws) sched in
  let '(c2, _, ok) := finish ostep 600 c1 600 in
  let n_ok := length (filter (fun l => match ol_pc l with ORetOk => true | _ => false end) (snd c2)) in
  let n_exc := length (filter (fun l => match ol_pc l with ORetExc => true | _ => false end) (snd c2)) in
  let n_throw := length (filter (fun b => b) (concat throws)) in
  ok && (o_success (fst c2) =? 1) && (o_bad_access (fst c2) =? 0)
  && Nat.eqb (n_ok + n_exc) (length throws)
  && match o_word (fst c2) with Done => true | _ => false end.

Definition explore_once (throws : list (list bool)) (len : nat) : bool :=
  forallb (once_ok throws) (all_scheds (length throws) len).

(* 2 threads, nobody throws / the first attempt throws; 3 threads, first attempt throws: every interleaving prefix of
   the given length, completed round-robin, ends with exactly one success, every caller returned (those whose attempt
   threw with the exception), state done, and no access to a destroyed runner *)
Lemma once_small_configs :
  explore_once [[false]; [false]] 12 = true /\
  explore_once [[true; false]; [false]] 12 = true /\
  explore_once [[true; false]; [false]; [false]] 8 = true.
Proof. repeat split; vm_compute; reflexivity. Qed.
