(* C05: the range pool of auto_partitioner / affinity_partitioner (include/oneapi/tbb/partitioner.h:191-254, range_vector<T, 8>):
   a ring of at most 8 subranges with their relative depths.  split_to_fill keeps splitting the range at the head while the pool
   has room, the depth limit allows it and the range is divisible (the head slot keeps the LEFT half, the slot before it gets the
   right half); work_balance runs the body on back() and pops it, or offers front() to a thief and pops it.
   The ring indices (my_head, my_tail, my_size) are modelled explicitly, stale slots keep their old bits. *)
From OTV Require Import Lib.Tac ForModel.
Local Open Scope Z_scope.

Definition CAP : Z := 8.
Record slot := mkslot { s_r : rng; s_d : Z }.
Record rvec := mkrv { v_slots : list slot; v_head : Z; v_tail : Z; v_size : Z }.

Definition gets (v : rvec) (i : Z) : slot := nth (Z.to_nat i) (v_slots v) (mkslot (mkrng 0 0 1) 0).
Fixpoint setl (l : list slot) (i : nat) (x : slot) : list slot :=
  match l, i with [], _ => [] | _ :: tl, O => x :: tl | y :: tl, S k => y :: setl tl k x end.
Definition sets (v : rvec) (i : Z) (x : slot) : list slot := setl (v_slots v) (Z.to_nat i) x.

Definition rv_init (r : rng) : rvec := mkrv (mkslot r 0 :: repeat (mkslot (mkrng 0 0 1) 0) 7) 0 0 1.

(* one iteration of split_to_fill's loop *)
Definition split_once (v : rvec) : rvec :=
  let prev := v_head v in
  let h := (v_head v + 1) mod CAP in
  let s := gets v prev in
  let '(l, rt) := split_mid (s_r s) in
  let d := s_d s + 1 in
  mkrv (setl (sets v h (mkslot l d)) (Z.to_nat prev) (mkslot rt d)) h (v_tail v) (v_size v + 1).
Definition can_split (v : rvec) (maxd : Z) : bool :=
  (v_size v <? CAP) && (s_d (gets v (v_head v)) <? maxd) && divisible (s_r (gets v (v_head v))).
Fixpoint split_to_fill (fuel : nat) (v : rvec) (maxd : Z) : rvec :=
  match fuel with
  | O => v
  | S f => if can_split v maxd then split_to_fill f (split_once v) maxd else v
  end.
Definition pop_back (v : rvec) : rvec := mkrv (v_slots v) ((v_head v + CAP - 1) mod CAP) (v_tail v) (v_size v - 1).
Definition pop_front (v : rvec) : rvec := mkrv (v_slots v) (v_head v) ((v_tail v + 1) mod CAP) (v_size v - 1).

(* the live subranges from front() to back() *)
Definition live (v : rvec) : list slot := map (fun i => gets v ((v_tail v + Z.of_nat i) mod CAP)) (seq 0 (Z.to_nat (v_size v))).

(* ops: 1 d = split_to_fill(d) (only on a non-empty pool, as work_balance does) | 2 = run body on back(), pop_back | 3 = offer front() to a thief, pop_front (only while size > 1, as work_balance does) *)
Definition rstep (v : rvec) (op d : Z) : rvec * list Z :=
  if op =? 1 then
    let v' := if 0 <? v_size v then split_to_fill 8 v d else v in (v', [v_head v'; v_tail v'; v_size v'])
  else if op =? 2 then
    if 0 <? v_size v then
      let s := gets v (v_head v) in let v' := pop_back v in
      (v', [rb (s_r s); re (s_r s); s_d s; v_head v'; v_tail v'; v_size v'])
    else (v, [-1])
  else if op =? 3 then
    if 1 <? v_size v then
      let s := gets v (v_tail v) in let v' := pop_front v in
      (v', [rb (s_r s); re (s_r s); s_d s; v_head v'; v_tail v'; v_size v'])
    else (v, [-1])
  else (v, [-2]).

Fixpoint rrun (v : rvec) (ops : list Z) : rvec * list Z :=
  match ops with
  | op :: d :: tl => let '(v1, o1) := rstep v op d in let '(v2, o2) := rrun v1 tl in (v2, o1 ++ o2)
  | _ => (v, [])
  end.
(* flat interface: b e g (op d)*  ->  per op its output; then -7 and the live subranges front to back (b e depth)* *)
Definition run_rvec (inp : list Z) : list Z :=
  match inp with
  | b :: e :: g :: tl =>
      let '(v, out) := rrun (rv_init (mkrng b e g)) tl in
      out ++ [-7] ++ flat_map (fun s => [rb (s_r s); re (s_r s); s_d s]) (live v)
  | _ => []
  end.
