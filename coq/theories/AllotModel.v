(* C16: executable model of the worker allotment arithmetic:
   market::update_allotment / adjust_demand / set_active_num_workers (src/tbb/market.cpp:71-139),
   pm_client::update_request (src/tbb/pm_client.h:46-51) and arena::update_request (src/tbb/arena.cpp:415-432).
   All quantities are C++ int; no overflow is modelled (values are bounded by thread counts). *)
From OTV Require Import Lib.Tac Params.
Local Open Scope Z_scope.

(* one client inside its priority level, as update_allotment sees it: (min_workers, max_workers) *)
Definition creq := (Z * Z)%type.

(* inner loop of update_allotment over one priority level (clients already in serving order).
   returns allotments, assigned, carry *)
Fixpoint level_allot (L apl D maxw : Z) (cs : list creq) (assigned carry : Z) : list Z * Z * Z :=
  match cs with
  | [] => ([], assigned, carry)
  | (mn, mx) :: tl =>
      if mx =? 0 then
        let '(r, a, c) := level_allot L apl D maxw tl assigned carry in (0 :: r, a, c)
      else
        let '(al, carry') :=
          if L =? 0 then ((if (0 <? mn) && (assigned <? maxw) then 1 else 0), carry)
          else let tmp := mx * apl + carry in (tmp / D, tmp mod D) in
        let '(r, a, c) := level_allot L apl D maxw tl (assigned + al) carry' in (al :: r, a, c)
  end.

(* outer loop over the priority levels: (level demand, clients) from highest priority to lowest *)
Fixpoint levels_allot (L maxw : Z) (lv : list (Z * list creq)) (unassigned assigned carry : Z)
  : list (list Z) * Z :=
  match lv with
  | [] => ([], assigned)
  | (D, cs) :: tl =>
      let apl := Z.min D unassigned in
      let '(r, a, c) := level_allot L apl D maxw cs assigned carry in
      let '(rs, a') := levels_allot L maxw tl (unassigned - apl) a c in
      (r :: rs, a')
  end.

Definition effective_limit (L mand : Z) : Z := if (0 <? mand) && (L =? 0) then 1 else L.

Definition update_allotment (L mand total : Z) (lv : list (Z * list creq)) : list (list Z) * Z :=
  let maxw := Z.min total (effective_limit L mand) in
  levels_allot L maxw lv maxw 0 0.

(* ---------------- the market as a state machine ---------------- *)
Record client := mkclient {
  c_prio : Z;          (* 0 = high .. 2 = low *)
  c_maxnw : Z;         (* arena::my_max_num_workers *)
  c_mand : Z;          (* arena::my_mandatory_requests *)
  c_total : Z;         (* arena::my_total_num_workers_requested *)
  c_min : Z; c_max : Z;(* pm_client::my_min_workers / my_max_workers *)
  c_allot : Z;         (* arena::my_num_workers_allotted *)
  c_top : bool }.      (* arena::my_is_top_priority *)

Record market := mkmarket {
  m_soft : Z; m_total : Z; m_lvl : list Z; m_mand : Z; m_clients : list client }.

Definition clampz (v lo hi : Z) : Z := if lo <? v then (if hi <? v then hi else v) else lo.

Fixpoint upd_list {A} (l : list A) (i : nat) (f : A -> A) : list A :=
  match l, i with
  | [], _ => []
  | x :: tl, O => f x :: tl
  | x :: tl, S j => x :: upd_list tl j f
  end.

Definition add_at (l : list Z) (i : nat) (d : Z) : list Z := upd_list l i (fun x => x + d).

(* ids of the clients of priority level p in serving order = reverse registration order *)
Definition level_ids (cs : list client) (p : Z) : list nat :=
  rev (map fst (filter (fun q => c_prio (snd q) =? p) (combine (seq 0 (length cs)) cs))).

Definition get_client (cs : list client) (i : nat) : client :=
  nth i cs (mkclient 0 0 0 0 0 0 0 false).

(* redo the allotment and write allotted / top-priority back, exactly as the code does (a client with
   max_workers = 0 gets allotment 0 and keeps its old top-priority flag) *)
Definition first_nonempty_level (m : market) : Z :=
  let has p := existsb (fun i => negb (c_max (get_client (m_clients m) i) =? 0)) (level_ids (m_clients m) p) in
  if has 0 then 0 else if has 1 then 1 else if has 2 then 2 else 3.

Definition reallot (m : market) : market :=
  let ids := map (fun p => level_ids (m_clients m) p) [0; 1; 2] in
  let lv := map (fun pi => (nth (Z.to_nat (fst pi)) (m_lvl m) 0,
                            map (fun i => let c := get_client (m_clients m) i in (c_min c, c_max c)) (snd pi)))
                (combine [0; 1; 2] ids) in
  let '(res, _) := update_allotment (m_soft m) (m_mand m) (m_total m) lv in
  let top := first_nonempty_level m in
  let assign := combine (concat ids) (concat res) in
  let cs' := map (fun q =>
      let '(i, c) := q in
      match find (fun a => Nat.eqb (fst a) i) assign with
      | Some (_, al) =>
          mkclient (c_prio c) (c_maxnw c) (c_mand c) (c_total c) (c_min c) (c_max c) al
                   (if c_max c =? 0 then c_top c else (c_prio c =? top))
      | None => c
      end) (combine (seq 0 (length (m_clients m))) (m_clients m)) in
  mkmarket (m_soft m) (m_total m) (m_lvl m) (m_mand m) cs'.

Inductive mop :=
| Adjust (i : nat) (md wd : Z)      (* market::adjust_demand(client i, mandatory_delta, workers_delta) *)
| SetLimit (l : Z).                 (* market::set_active_num_workers(l) *)

(* returns the new market and the delta passed to notify_thread_request *)
Definition mstep (m : market) (o : mop) : market * Z :=
  match o with
  | SetLimit l =>
      if m_soft m =? l then (m, 0)
      else (reallot (mkmarket l (m_total m) (m_lvl m) (m_mand m) (m_clients m)), 0)
  | Adjust i md wd =>
      let c := get_client (m_clients m) i in
      let mand' := c_mand c + md in
      let minr := if 0 <? mand' then 1 else 0 in
      let total' := c_total c + wd in
      let maxr := clampz total' 0 (if (0 <? minr) && (c_maxnw c =? 0) then 1 else c_maxnw c) in
      let delta := maxr - c_max c in
      let c' := mkclient (c_prio c) (c_maxnw c) mand' total' minr maxr (c_allot c) (c_top c) in
      let cs' := upd_list (m_clients m) i (fun _ => c') in
      (reallot (mkmarket (m_soft m) (m_total m + delta) (add_at (m_lvl m) (Z.to_nat (c_prio c)) delta)
                         (m_mand m + md) cs'), delta)
  end.

(* ---- flat interface: soft_limit nclients (prio maxnw)*  then ops: (0 i md wd) | (1 l 0 0) ----
   output per op: delta, then per client (allotted, top) *)
Fixpoint mk_clients (n : nat) (l : list Z) : list client * list Z :=
  match n with
  | O => ([], l)
  | S n' => match l with
            | p :: mx :: tl => let '(cs, r) := mk_clients n' tl in (mkclient p mx 0 0 0 0 0 false :: cs, r)
            | _ => ([], [])
            end
  end.

Fixpoint run_mops (m : market) (l : list Z) : list Z :=
  match l with
  | k :: a :: b :: c :: tl =>
      let o := if k =? 0 then Adjust (Z.to_nat a) b c else SetLimit a in
      let '(m', d) := mstep m o in
      d :: flat_map (fun c => [c_allot c; if c_top c then 1 else 0]) (m_clients m') ++ run_mops m' tl
  | _ => []
  end.

Definition run_allot (l : list Z) : list Z :=
  match l with
  | soft :: n :: tl =>
      let '(cs, rest) := mk_clients (Z.to_nat n) tl in
      run_mops (mkmarket soft 0 [0; 0; 0] 0 cs) rest
  | _ => []
  end.
