(* C15: join_node with the QUEUEING policy (include/oneapi/tbb/detail/_flow_graph_join_impl.h: queueing_port :459-660,
   join_node_FE<queueing> :937-1016, join_node_base::handle_operations :1296-1390).
   Every port buffers its messages in a FIFO; ports_with_no_items counts the empty ports; the port that becomes non-empty last
   (counter 1 -> 0) creates a forward task; the forward task, exclusive under the node's aggregator, builds the tuple of the
   fronts, offers it to the successors and, if it was taken, resets the counter to N, pops every port and decrements again for
   every port that is still non-empty (creating another forward task when the counter reaches 0), and goes on while tuples
   can be built; a rejection leaves everything in place and reverses the edge (the successor pulls with try_get or registers
   again).  One operation = one operation of a port's or of the node's aggregator. *)
From OTV Require Import Lib.Tac.
Local Open Scope Z_scope.

Record jn := mkjn {
  j_qs : list (list Z);        (* per port: buffered messages, oldest first *)
  j_pwni : Z;                  (* ports_with_no_items *)
  j_fwd : Z;                   (* forward tasks created and not yet run *)
  j_busy : bool;               (* forwarder_busy *)
  j_push : bool;               (* the successor is in my_successors (push mode) *)
  j_acc : bool;                (* the scripted successor accepts what it is offered *)
  j_out : list (list Z);       (* tuples handed to the successor, in order *)
  j_puts : list (list Z) }.    (* ghost: per port everything ever put, in order *)

Definition isnil (q : list Z) : bool := match q with [] => true | _ => false end.
Fixpoint setq (l : list (list Z)) (i : nat) (v : list Z) : list (list Z) :=
  match l, i with [], _ => [] | _ :: tl, O => v :: tl | x :: tl, S k => x :: setq tl k v end.
Definition getq (l : list (list Z)) (i : nat) : list Z := nth i l [].

(* tuple_accepted: reset the counter, pop every port, decrement for every port that still holds something *)
Definition reset_ports (qs : list (list Z)) (fwd : Z) : list (list Z) * Z * Z :=
  let qs' := map (@tl Z) qs in
  let '(pw, fw) := fold_left (fun '(pw, fw) q => if isnil q then (pw, fw) else (pw - 1, if pw - 1 =? 0 then fw + 1 else fw))
                             qs' (Z.of_nat (length qs), fwd) in
  (qs', pw, fw).

Definition take_tuple (n : jn) : jn :=
  let '(qs', pw, fw) := reset_ports (j_qs n) (j_fwd n) in
  mkjn qs' pw fw (j_busy n) (j_push n) (j_acc n) (j_out n ++ [map (hd 0) (j_qs n)]) (j_puts n).

(* the loop of do_fwrd_bypass *)
Fixpoint fwd_loop (fuel : nat) (n : jn) : jn :=
  match fuel with
  | O => n
  | S f =>
      if j_pwni n =? 0 then
        if j_push n && j_acc n then fwd_loop f (take_tuple n)
        else mkjn (j_qs n) (j_pwni n) (j_fwd n) (j_busy n) false (j_acc n) (j_out n) (j_puts n)     (* rejected (or nobody registered): the edge is reversed *)
      else n
  end.
Definition total_len (n : jn) : nat := fold_right (fun q a => (length q + a)%nat) O (j_qs n).

(* ops: 1 i v put on port i | 2 successor accepts from now on | 3 rejects from now on | 4 the successor pulls (try_get) |
        6 the successor registers again | 7 run one forward task *)
Definition jstep (n : jn) (op a v : Z) : jn * Z :=
  if op =? 1 then
    let i := Z.to_nat a in
    if (i <? length (j_qs n))%nat then
      let was_empty := isnil (getq (j_qs n) i) in
      let qs' := setq (j_qs n) i (getq (j_qs n) i ++ [v]) in
      let puts' := setq (j_puts n) i (getq (j_puts n) i ++ [v]) in
      if was_empty then
        let pw := j_pwni n - 1 in
        (mkjn qs' pw (if pw =? 0 then j_fwd n + 1 else j_fwd n) (j_busy n) (j_push n) (j_acc n) (j_out n) puts', 1)
      else (mkjn qs' (j_pwni n) (j_fwd n) (j_busy n) (j_push n) (j_acc n) (j_out n) puts', 1)
    else (n, 0)
  else if op =? 2 then (mkjn (j_qs n) (j_pwni n) (j_fwd n) (j_busy n) (j_push n) true (j_out n) (j_puts n), 1)
  else if op =? 3 then (mkjn (j_qs n) (j_pwni n) (j_fwd n) (j_busy n) (j_push n) false (j_out n) (j_puts n), 1)
  else if op =? 4 then
    if j_pwni n =? 0 then (take_tuple n, 1) else (n, 0)
  else if op =? 6 then
    if (j_pwni n =? 0) && negb (j_busy n)
    then (mkjn (j_qs n) (j_pwni n) (j_fwd n + 1) true true (j_acc n) (j_out n) (j_puts n), 1)
    else (mkjn (j_qs n) (j_pwni n) (j_fwd n) (j_busy n) true (j_acc n) (j_out n) (j_puts n), 1)
  else if op =? 7 then
    if 0 <? j_fwd n then
      let n1 := fwd_loop (S (total_len n)) n in
      (mkjn (j_qs n1) (j_pwni n1) (j_fwd n1 - 1) false (j_push n1) (j_acc n1) (j_out n1) (j_puts n1), 1)
    else (n, 0)
  else (n, 0).

Definition jinit (nports : nat) : jn :=
  mkjn (repeat [] nports) (Z.of_nat nports) 0 false true true [] (repeat [] nports).

(* the graph runs its forward tasks by itself: between two external operations it is quiescent *)
Fixpoint jsettle (fuel : nat) (n : jn) : jn :=
  match fuel with
  | O => n
  | S f => if 0 <? j_fwd n then jsettle f (fst (jstep n 7 0 0)) else n
  end.

(* flat interface: nports, then (op a v)*  ->  per op: result, ports_with_no_items, forwarder_busy, successor registered?, tuples delivered so far,
   sizes of the port buffers;  then -7 and the delivered tuples *)
Fixpoint jtrace (n : jn) (ops : list Z) : jn * list Z :=
  match ops with
  | op :: a :: v :: tl =>
      let '(n1, r) := jstep n op a v in
      let n2 := jsettle 64 n1 in
      let '(n3, rs) := jtrace n2 tl in
      (n3, r :: j_pwni n2 :: (if j_busy n2 then 1 else 0) :: (if j_push n2 then 1 else 0) :: Z.of_nat (length (j_out n2))
           :: map (fun q => Z.of_nat (length q)) (j_qs n2) ++ rs)
  | _ => (n, [])
  end.
Definition run_join (inp : list Z) : list Z :=
  match inp with
  | np :: tl => let '(n, rs) := jtrace (jinit (Z.to_nat np)) tl in rs ++ [-7] ++ concat (j_out n)
  | [] => []
  end.
