(* C10: the table of concurrent_hash_map with lazy rehashing refines a finite map (sequential refinement). *)
From Coq Require Import Znumtheory.
From OTV Require Import Lib.Tac Lib.Conc Params HashModel.
Local Open Scope Z_scope.

(* ---------- arithmetic of bucket indices ---------- *)
Lemma pow2_pos n : 0 <= n -> 0 < 2 ^ n.
Proof. intros. apply Z.pow_pos_nonneg; lia. Qed.

Lemma pow2_le a b : 0 <= a <= b -> 2 ^ a <= 2 ^ b.
Proof. intros. apply Z.pow_le_mono_r; lia. Qed.

Lemma mod_mod_pow x a b : 0 <= a <= b -> (x mod 2 ^ b) mod 2 ^ a = x mod 2 ^ a.
Proof.
  intros H. symmetry. apply Zmod_div_mod; try (apply pow2_pos; lia).
  exists (2 ^ (b - a)). rewrite <- Z.pow_add_r by lia. f_equal. lia.
Qed.

Lemma lvl_pos j : 1 <= lvl j.
Proof. unfold lvl. destruct (j <? 2) eqn:E; [lia|]. assert (0 <= Z.log2 j) by apply Z.log2_nonneg. lia. Qed.

Lemma lt_pow_lvl j : 0 <= j -> j < 2 ^ lvl j.
Proof.
  intros H. unfold lvl. destruct (j <? 2) eqn:E.
  - change (2 ^ 1) with 2. lia.
  - assert (0 < j) by lia. destruct (Z.log2_spec j H0) as [_ H2].
    replace (Z.log2 j + 1) with (Z.succ (Z.log2 j)) by lia. exact H2.
Qed.

Lemma lvl_le_bits j n : 1 <= n -> 0 <= j < 2 ^ n -> lvl j <= n.
Proof.
  intros Hn [H0 H1]. unfold lvl. destruct (j <? 2) eqn:E; [lia|].
  assert (Z.log2 j < n); [|lia]. apply Z.log2_lt_pow2; lia.
Qed.

Definition onpath (h j : Z) : Prop := h mod 2 ^ lvl j = j.

Lemma onpath_same_lvl h i j : onpath h i -> onpath h j -> lvl i = lvl j -> i = j.
Proof. unfold onpath. intros H1 H2 E. rewrite E in H1. congruence. Qed.

Lemma parent_range j : 2 <= j -> 0 <= parent j < 2 ^ Z.log2 j /\ 2 ^ Z.log2 j <= j.
Proof.
  intros H. unfold parent. assert (0 < j) by lia.
  destruct (Z.log2_spec j H0) as [H1 _].
  assert (0 < 2 ^ Z.log2 j) by (apply pow2_pos; apply Z.log2_nonneg).
  split; [apply Z.mod_pos_bound; lia | lia].
Qed.

Lemma lvl_parent j : 2 <= j -> lvl (parent j) < lvl j.
Proof.
  intros H. destruct (parent_range j H) as [[P0 P1] _].
  assert (HL : 1 <= Z.log2 j) by (apply Z.log2_le_pow2; [lia | change (2 ^ 1) with 2; lia]).
  unfold lvl at 2. destruct (j <? 2) eqn:E; [lia|].
  unfold lvl. destruct (parent j <? 2) eqn:E2; [lia|].
  assert (Z.log2 (parent j) < Z.log2 j); [|lia]. apply Z.log2_lt_pow2; lia.
Qed.

Lemma onpath_parent h j : 2 <= j -> onpath h j -> onpath h (parent j).
Proof.
  intros H Hp. unfold onpath in *.
  assert (Hl := lvl_parent j H). assert (Hl1 := lvl_pos (parent j)).
  destruct (parent_range j H) as [[P0 P1] _].
  assert (Ej : lvl j = Z.log2 j + 1) by (unfold lvl; destruct (j <? 2) eqn:E; lia).
  rewrite <- (mod_mod_pow h (lvl (parent j)) (lvl j)) by lia. rewrite Hp.
  rewrite <- (mod_mod_pow j (lvl (parent j)) (Z.log2 j)) by lia.
  fold (parent j). apply Z.mod_small. split; [lia | apply lt_pow_lvl; lia].
Qed.

(* nothing lies strictly between a bucket and its parent on a key's path *)
Lemma no_between h i j : 2 <= j -> 0 <= i -> onpath h i -> onpath h j ->
  lvl (parent j) < lvl i -> lvl i < lvl j -> False.
Proof.
  intros H Hi Pi Pj L1 L2.
  destruct (parent_range j H) as [[P0 P1] _].
  assert (Ej : lvl j = Z.log2 j + 1) by (unfold lvl; destruct (j <? 2) eqn:E; lia).
  assert (Hli := lvl_pos i). assert (Hlp := lvl_pos (parent j)).
  assert (Ei : i = parent j).
  { unfold onpath in Pi. rewrite <- Pi.
    rewrite <- (mod_mod_pow h (lvl i) (lvl j)) by lia. unfold onpath in Pj. rewrite Pj.
    rewrite <- (mod_mod_pow j (lvl i) (Z.log2 j)) by lia. fold (parent j).
    apply Z.mod_small. split; [lia|].
    assert (parent j < 2 ^ lvl (parent j)) by (apply lt_pow_lvl; lia).
    assert (2 ^ lvl (parent j) <= 2 ^ lvl i) by (apply pow2_le; lia). lia. }
  subst i. lia.
Qed.

Lemma home_onpath k n : 1 <= n -> 0 <= k -> let j := k mod 2 ^ n in 0 <= j < 2 ^ n /\ onpath k j.
Proof.
  intros Hn Hk j. assert (Hr : 0 <= j < 2 ^ n) by (apply Z.mod_pos_bound; apply pow2_pos; lia).
  split; auto. unfold onpath.
  assert (lvl j <= n) by (apply lvl_le_bits; auto). assert (Hl := lvl_pos j).
  rewrite <- (mod_mod_pow k (lvl j) n) by lia. fold j.
  apply Z.mod_small. split; [lia | apply lt_pow_lvl; lia].
Qed.

(* a key found on its path at a level deeper than its home bucket's level IS in its home bucket *)
Lemma deeper_is_home k n i : 1 <= n -> 0 <= k -> 0 <= i < 2 ^ n -> onpath k i ->
  lvl (k mod 2 ^ n) <= lvl i -> i = k mod 2 ^ n.
Proof.
  intros Hn Hk Hi Pi L. set (j := k mod 2 ^ n) in *.
  assert (Hr : 0 <= j < 2 ^ n) by (apply Z.mod_pos_bound; apply pow2_pos; lia).
  assert (lvl i <= n) by (apply lvl_le_bits; auto). assert (Hl := lvl_pos i). assert (Hlj := lvl_pos j).
  unfold onpath in Pi. rewrite <- Pi.
  rewrite <- (mod_mod_pow k (lvl i) n) by lia. fold j.
  apply Z.mod_small. split; [lia|].
  assert (j < 2 ^ lvl j) by (apply lt_pow_lvl; lia).
  assert (2 ^ lvl j <= 2 ^ lvl i) by (apply pow2_le; lia). lia.
Qed.

(* ---------- buckets ---------- *)
Lemma getb_setb_eq s j c x : 0 <= j -> getb s j = Some x -> getb (setb s j c) j = Some c.
Proof. unfold getb, setb. cbn. intros _ H. eapply nth_error_set_nth_eq; eauto. Qed.

Lemma getb_setb_neq s i j c : 0 <= i -> 0 <= j -> i <> j -> getb (setb s j c) i = getb s i.
Proof. unfold getb, setb. cbn. intros Hi Hj Hn. apply nth_error_set_nth_neq. lia. Qed.

Definition holds (s : hm) (k v : Z) : Prop := exists i c, 0 <= i /\ getb s i = Some (Some c) /\ In (k, v) c.

Definition Placed (s : hm) : Prop :=
  forall i c k v, 0 <= i -> getb s i = Some (Some c) -> In (k, v) c ->
    0 <= k /\ onpath k i /\
    (forall j, 0 <= j < 2 ^ h_bits s -> onpath k j -> lvl i < lvl j -> getb s j = Some None).

Definition Inv (s : hm) : Prop :=
  1 <= h_bits s /\
  length (h_buckets s) = Z.to_nat (2 ^ h_bits s) /\
  (forall j, 0 <= j < 2 -> getb s j <> Some None) /\
  (forall i c, 0 <= i -> getb s i = Some (Some c) -> NoDup (map fst c)) /\
  Placed s.

Lemma getb_in_range s j : Inv s -> 0 <= j < 2 ^ h_bits s -> exists x, getb s j = Some x.
Proof.
  intros (Hb & Hl & _) Hj. unfold getb.
  destruct (nth_error (h_buckets s) (Z.to_nat j)) eqn:E; eauto.
  apply nth_error_None in E. lia.
Qed.

Lemma getb_some_range s j x : Inv s -> 0 <= j -> getb s j = Some x -> j < 2 ^ h_bits s.
Proof.
  intros (Hb & Hl & _) Hj H. unfold getb in H.
  assert (Z.to_nat j < length (h_buckets s))%nat by (apply nth_error_Some; congruence). lia.
Qed.

Lemma NoDup_map_filter {A} (f : A * Z -> bool) (l : list (A * Z)) : NoDup (map fst l) -> NoDup (map fst (filter f l)).
Proof.
  induction l as [|x l IH]; cbn; intros H; [constructor|]. inv H.
  destruct (f x); cbn; auto. constructor; auto.
  intros Hin. apply H2. apply in_map_iff in Hin. destruct Hin as (y & Ey & Hy).
  apply filter_In in Hy. apply in_map_iff. exists y. tauto.
Qed.

Lemma lookup_In k c v : NoDup (map fst c) -> (lookup k c = Some v <-> In (k, v) c).
Proof.
  induction c as [|[k' v'] c IH]; cbn; intros H.
  - split; [discriminate | tauto].
  - inv H. destruct (k' =? k) eqn:E.
    + assert (k' = k) by lia. subst. split.
      * intros X. inv X. auto.
      * intros [X|X]; [inv X; auto|]. exfalso. apply H2. apply in_map_iff. exists (k, v). auto.
    + rewrite IH by auto. split; auto. intros [X|X]; auto. inv X. lia.
Qed.

Lemma lookup_None_notin k c : lookup k c = None -> forall v, ~ In (k, v) c.
Proof.
  induction c as [|[k' v'] c IH]; cbn; intros H v; [tauto|].
  destruct (k' =? k) eqn:E; [discriminate|]. intros [X|X]; [inv X; lia | eapply IH; eauto].
Qed.

(* ---------- one rehash step ---------- *)
Lemma rehash_step s j pc :
  Inv s -> 2 <= j < 2 ^ h_bits s -> getb s j = Some None -> getb s (parent j) = Some (Some pc) ->
  let mv := filter (fun kv => fst kv mod 2 ^ lvl j =? j) pc in
  let keep := filter (fun kv => negb (fst kv mod 2 ^ lvl j =? j)) pc in
  let s' := setb (setb s (parent j) (Some keep)) j (Some (rev mv)) in
  Inv s' /\ (forall k v, holds s' k v <-> holds s k v) /\ getb s' j = Some (Some (rev mv)) /\
  (forall i, 0 <= i -> i <> j -> i <> parent j -> getb s' i = getb s i).
Proof.
  intros HI Hj Gj Gp mv keep s'.
  destruct (parent_range j ltac:(lia)) as [[P0 P1] P2].
  assert (Lp := lvl_parent j ltac:(lia)).
  assert (Npj : parent j <> j) by lia.
  assert (Gj' : getb s' j = Some (Some (rev mv))).
  { unfold s'. eapply getb_setb_eq; [lia|]. rewrite getb_setb_neq by lia. eauto. }
  assert (Gp' : getb s' (parent j) = Some (Some keep)).
  { unfold s'. rewrite getb_setb_neq by lia. eapply getb_setb_eq; eauto. }
  assert (Go : forall i, 0 <= i -> i <> j -> i <> parent j -> getb s' i = getb s i).
  { intros i Hi N1 N2. unfold s'. rewrite !getb_setb_neq by lia. reflexivity. }
  destruct HI as (Hb & Hl & H01 & Hnd & Hpl).
  assert (Hbits : h_bits s' = h_bits s) by reflexivity.
  (* which bucket of s' a chain comes from *)
  assert (Hcases : forall i c, 0 <= i -> getb s' i = Some (Some c) ->
            (i = j /\ c = rev mv) \/ (i = parent j /\ c = keep) \/ (i <> j /\ i <> parent j /\ getb s i = Some (Some c))).
  { intros i c Hi G. destruct (Z.eq_dec i j) as [->|N1]; [left; split; congruence|].
    destruct (Z.eq_dec i (parent j)) as [->|N2]; [right; left; split; congruence|].
    right; right. rewrite Go in G by auto. auto. }
  split; [|split; [|split]]; auto.
  - (* Inv s' *)
    split; [exact Hb|]. split; [unfold s', setb; cbn; rewrite !set_nth_length; exact Hl|].
    split; [|split].
    + intros i Hi. destruct (Z.eq_dec i j); [lia|].
      destruct (Z.eq_dec i (parent j)) as [->|N2]; [congruence|]. rewrite Go by lia. apply H01; lia.
    + intros i c Hi G. destruct (Hcases i c Hi G) as [[-> ->]|[[-> ->]|(N1 & N2 & G0)]].
      * rewrite map_rev. apply NoDup_rev. apply NoDup_map_filter. eapply Hnd; [exact P0|exact Gp].
      * apply NoDup_map_filter. eapply Hnd; [exact P0|exact Gp].
      * eapply Hnd; eauto.
    + intros i c k v Hi G Hin. rewrite Hbits.
      destruct (Hcases i c Hi G) as [[-> ->]|[[-> ->]|(N1 & N2 & G0)]].
      * apply in_rev in Hin. apply filter_In in Hin. destruct Hin as [Hin Hf]. cbn in Hf.
        destruct (Hpl _ _ _ _ P0 Gp Hin) as (Hk & Hop & Hdeep).
        split; [auto|]. split; [unfold onpath; lia|].
        intros j' Hj' Pj' Lj'.
        assert (N1 : j' <> j) by (intros ->; lia).
        assert (N2 : j' <> parent j) by (intros ->; lia).
        rewrite Go by lia. apply Hdeep; auto; lia.
      * apply filter_In in Hin. destruct Hin as [Hin Hf]. cbn in Hf.
        destruct (Hpl _ _ _ _ P0 Gp Hin) as (Hk & Hop & Hdeep).
        split; [auto|]. split; [auto|].
        intros j' Hj' Pj' Lj'.
        assert (N1 : j' <> j) by (intros ->; unfold onpath in Pj'; lia).
        assert (N2 : j' <> parent j) by (intros ->; lia).
        rewrite Go by lia. apply Hdeep; auto.
      * destruct (Hpl _ _ _ _ Hi G0 Hin) as (Hk & Hop & Hdeep).
        split; [auto|]. split; [auto|].
        intros j' Hj' Pj' Lj'.
        assert (Gold := Hdeep j' Hj' Pj' Lj').
        assert (N4 : j' <> parent j) by (intros ->; congruence).
        destruct (Z.eq_dec j' j) as [->|N3]; [|rewrite Go by lia; exact Gold].
        exfalso.
        assert (Ppar : onpath k (parent j)) by (apply onpath_parent; auto; lia).
        destruct (Z.lt_trichotomy (lvl (parent j)) (lvl i)) as [L|[L|L]].
        -- eapply no_between with (h := k) (i := i) (j := j); eauto; lia.
        -- apply N2. eapply onpath_same_lvl; eauto.
        -- assert (X : getb s (parent j) = Some None) by (apply Hdeep; auto; lia). congruence.
  - (* holds *)
    intros k v. split.
    + intros (i & c & Hi & G & Hin).
      destruct (Hcases i c Hi G) as [[-> ->]|[[-> ->]|(N1 & N2 & G0)]].
      * apply in_rev in Hin. apply filter_In in Hin. exists (parent j), pc. tauto.
      * apply filter_In in Hin. exists (parent j), pc. tauto.
      * exists i, c. tauto.
    + intros (i & c & Hi & G & Hin).
      destruct (Z.eq_dec i j) as [->|N1]; [congruence|].
      destruct (Z.eq_dec i (parent j)) as [->|N2].
      * assert (c = pc) by congruence. subst c.
        destruct (k mod 2 ^ lvl j =? j) eqn:E.
        -- exists j, (rev mv). split; [lia|]. split; auto. apply in_rev. rewrite rev_involutive.
           apply filter_In. split; auto.
        -- exists (parent j), keep. split; [lia|]. split; auto. apply filter_In. split; auto. cbn. rewrite E. reflexivity.
      * exists i, c. rewrite Go by auto. tauto.
Qed.

(* ---------- bucket_accessor::acquire ---------- *)
Lemma acquire_ok fuel : forall s j,
  Inv s -> 0 <= j < 2 ^ h_bits s -> lvl j <= Z.of_nat fuel ->
  let s' := acquire fuel s j in
  Inv s' /\ h_bits s' = h_bits s /\ h_size s' = h_size s /\
  (forall k v, holds s' k v <-> holds s k v) /\
  (exists c, getb s' j = Some (Some c)) /\
  (forall i, 0 <= i -> lvl j < lvl i -> getb s' i = getb s i).
Proof.
  induction fuel as [|f IH]; intros s j HI Hj Hf s'.
  - assert (1 <= lvl j) by apply lvl_pos. lia.
  - unfold s'. cbn [acquire].
    destruct (getb_in_range s j HI Hj) as [x Gx]. rewrite Gx.
    destruct x as [c|].
    + split; [exact HI|]. split; [reflexivity|]. split; [reflexivity|]. split; [tauto|]. split; [eauto|]. auto.
    + assert (H2 : 2 <= j).
      { destruct HI as (_ & _ & H01 & _). destruct (Z_lt_le_dec j 2); auto. exfalso. eapply H01; [|eauto]. lia. }
      destruct (parent_range j H2) as [[P0 P1] P2]. assert (Lp := lvl_parent j H2).
      assert (Hpr : 0 <= parent j < 2 ^ h_bits s) by lia.
      destruct (IH s (parent j) HI Hpr ltac:(lia)) as (HI1 & Hb1 & Hs1 & Hh1 & [pc Gp1] & Hfar1).
      rewrite Gp1.
      assert (Gj1 : getb (acquire f s (parent j)) j = Some None) by (rewrite Hfar1; auto; lia).
      destruct (rehash_step (acquire f s (parent j)) j pc HI1 ltac:(rewrite Hb1; lia) Gj1 Gp1) as (HI2 & Hh2 & G2 & Go2).
      split; [exact HI2|]. split; [cbn; exact Hb1|]. split; [cbn; exact Hs1|].
      split; [intros k v; rewrite Hh2; apply Hh1|]. split; [eauto|].
      intros i Hi Li. rewrite Go2; [apply Hfar1; auto; lia | auto | intros ->; lia | intros ->; lia].
Qed.

Lemma fuel_ok s j : Inv s -> 0 <= j < 2 ^ h_bits s -> lvl j <= Z.of_nat (fuel_of s).
Proof.
  intros (Hb & _) Hj. unfold fuel_of. assert (lvl j <= h_bits s) by (apply lvl_le_bits; auto). lia.
Qed.

(* after acquiring its home bucket, a key is in the table iff it is in that bucket's chain *)
Lemma home_chain s k v : Inv s -> 0 <= k -> (exists c, getb s (k mod 2 ^ h_bits s) = Some (Some c)) ->
  (holds s k v <-> In (k, v) (chain_of s (k mod 2 ^ h_bits s))).
Proof.
  intros HI Hk [c Gc]. unfold chain_of. rewrite Gc. assert (HI0 := HI).
  destruct HI as (Hb & Hl & H01 & Hnd & Hpl).
  destruct (home_onpath k (h_bits s) Hb Hk) as [Hr Hop].
  split.
  - intros (i & ci & Hi & Gi & Hin).
    destruct (Hpl _ _ _ _ Hi Gi Hin) as (_ & Hopi & Hdeep).
    assert (Hir : i < 2 ^ h_bits s) by (eapply (getb_some_range s i _ HI0 Hi Gi)).
    destruct (Z_lt_le_dec (lvl i) (lvl (k mod 2 ^ h_bits s))) as [L|L].
    + assert (X := Hdeep _ Hr Hop L). congruence.
    + assert (i = k mod 2 ^ h_bits s) by (apply deeper_is_home; auto; lia). subst i. congruence.
  - intros Hin. exists (k mod 2 ^ h_bits s), c. repeat split; auto; lia.
Qed.

Lemma holds_size_irrelevant s n k v : holds (mkhm (h_bits s) (h_buckets s) n) k v <-> holds s k v.
Proof. unfold holds, getb. cbn. tauto. Qed.

Lemma Inv_size_irrelevant s n : Inv s -> Inv (mkhm (h_bits s) (h_buckets s) n).
Proof. unfold Inv, Placed, getb. cbn. tauto. Qed.

(* writing a new chain into an acquired home bucket *)
Lemma set_home s k c c' :
  Inv s -> 0 <= k -> getb s (k mod 2 ^ h_bits s) = Some (Some c) ->
  NoDup (map fst c') -> (forall k' v', In (k', v') c' -> In (k', v') c \/ k' = k) ->
  let j := k mod 2 ^ h_bits s in
  let s' := setb s j (Some c') in
  Inv s' /\ (forall k' v', holds s' k' v' <-> (holds s k' v' /\ ~ In (k', v') c) \/ In (k', v') c').
Proof.
  intros HI Hk Gc Hnd' Hsub j s'. assert (HI0 := HI).
  destruct HI as (Hb & Hl & H01 & Hnd & Hpl).
  destruct (home_onpath k (h_bits s) Hb Hk) as [Hr Hop]. fold j in Hr, Hop, Gc.
  assert (Gj' : getb s' j = Some (Some c')) by (unfold s'; eapply getb_setb_eq; eauto; lia).
  assert (Go : forall i, 0 <= i -> i <> j -> getb s' i = getb s i) by (intros; unfold s'; apply getb_setb_neq; auto; lia).
  split.
  - split; [exact Hb|]. split; [unfold s', setb; cbn; rewrite set_nth_length; exact Hl|]. split; [|split].
    + intros i Hi. destruct (Z.eq_dec i j) as [->|N]; [congruence|]. rewrite Go by lia. apply H01; auto.
    + intros i ci Hi G. destruct (Z.eq_dec i j) as [->|N]; [congruence|]. rewrite Go in G by lia. eapply Hnd; eauto.
    + intros i ci k' v' Hi G Hin. change (h_bits s') with (h_bits s).
      destruct (Z.eq_dec i j) as [->|N].
      * assert (ci = c') by congruence. subst ci.
        destruct (Hsub _ _ Hin) as [Hold| ->].
        -- destruct (Hpl _ _ _ _ Hi Gc Hold) as (Hk' & Hop' & Hdeep). repeat split; auto.
           intros j' Hj' Pj' Lj'. rewrite Go; [apply Hdeep; auto | lia | intros ->; lia].
        -- repeat split; auto. intros j' Hj' Pj' Lj'. exfalso.
           assert (j' = k mod 2 ^ h_bits s) by (apply deeper_is_home; auto; fold j; lia). fold j in H. subst j'. lia.
      * rewrite Go in G by lia. destruct (Hpl _ _ _ _ Hi G Hin) as (Hk' & Hop' & Hdeep). repeat split; auto.
        intros j' Hj' Pj' Lj'. assert (X := Hdeep j' Hj' Pj' Lj').
        rewrite Go; [exact X | lia | intros ->; congruence].
  - intros k' v'. split.
    + intros (i & ci & Hi & G & Hin). destruct (Z.eq_dec i j) as [->|N].
      * right. congruence.
      * left. rewrite Go in G by lia. split; [exists i, ci; auto|].
        intros Hinc. (* the same pair in two different buckets *)
        destruct (Hpl _ _ _ _ Hi G Hin) as (_ & Pi & Di). destruct (Hpl _ _ _ _ (proj1 Hr) Gc Hinc) as (_ & Pj & Dj).
        assert (Hir : i < 2 ^ h_bits s) by (eapply (getb_some_range s i _ HI0 Hi G)).
        destruct (Z.lt_trichotomy (lvl i) (lvl j)) as [L|[L|L]].
        -- assert (X := Di j Hr Pj L). congruence.
        -- apply N. eapply onpath_same_lvl; eauto.
        -- assert (X := Dj i ltac:(lia) Pi L). congruence.
    + intros [[(i & ci & Hi & G & Hin) Hn]|Hin].
      * destruct (Z.eq_dec i j) as [->|N]; [exfalso; apply Hn; congruence|].
        exists i, ci. rewrite Go by lia. auto.
      * exists j, c'. repeat split; auto; lia.
Qed.

(* ---------- growth ---------- *)
Lemma grow_ok s : Inv s -> 1 <= hm_first_block -> Inv (grow s) /\ (forall k v, holds (grow s) k v <-> holds s k v).
Proof.
  intros HI Hfb. assert (HI0 := HI). destruct HI as (Hb & Hl & H01 & Hnd & Hpl).
  set (nb := if h_bits s <? hm_first_block then hm_first_block else h_bits s + 1).
  assert (Hnb : h_bits s < nb) by (unfold nb; destruct (h_bits s <? hm_first_block) eqn:E; lia).
  assert (Hpw : 2 ^ h_bits s <= 2 ^ nb) by (apply pow2_le; lia).
  assert (Hp0 : 0 < 2 ^ h_bits s) by (apply pow2_pos; lia).
  assert (Hp2 : 2 ^ 1 <= 2 ^ h_bits s) by (apply pow2_le; lia). change (2 ^ 1) with 2 in Hp2.
  assert (Gold : forall i, 0 <= i < 2 ^ h_bits s -> getb (grow s) i = getb s i).
  { intros i Hi. unfold getb, grow. cbn. apply nth_error_app1. lia. }
  assert (Gnew : forall i, 2 ^ h_bits s <= i < 2 ^ nb -> getb (grow s) i = Some None).
  { intros i Hi. unfold getb, grow. cbn. fold nb. rewrite nth_error_app2 by lia.
    apply nth_error_repeat. lia. }
  assert (Gsome : forall i c, 0 <= i -> getb (grow s) i = Some (Some c) -> i < 2 ^ h_bits s /\ getb s i = Some (Some c)).
  { intros i c Hi G. destruct (Z_lt_le_dec i (2 ^ h_bits s)) as [L|L]; [rewrite Gold in G by lia; auto|].
    exfalso. destruct (Z_lt_le_dec i (2 ^ nb)) as [L2|L2]; [rewrite Gnew in G by lia; discriminate|].
    unfold getb, grow in G. cbn in G. fold nb in G.
    assert (nth_error (h_buckets s ++ repeat None (Z.to_nat (2 ^ nb - 2 ^ h_bits s))) (Z.to_nat i) = None).
    { apply nth_error_None. rewrite app_length, repeat_length. lia. }
    congruence. }
  split.
  - split; [cbn; fold nb; lia|]. split; [cbn; fold nb; rewrite app_length, repeat_length; lia|]. split; [|split].
    + intros j Hj. rewrite Gold by lia. apply H01; auto.
    + intros i c Hi G. destruct (Gsome _ _ Hi G) as [_ G0]. eapply Hnd; eauto.
    + intros i c k v Hi G Hin. destruct (Gsome _ _ Hi G) as [Hir G0].
      destruct (Hpl _ _ _ _ Hi G0 Hin) as (Hk & Hop & Hdeep). repeat split; auto.
      intros j Hj Pj Lj. cbn in Hj. fold nb in Hj.
      destruct (Z_lt_le_dec j (2 ^ h_bits s)) as [L|L]; [rewrite Gold by lia; apply Hdeep; auto; lia | apply Gnew; lia].
  - intros k v. split.
    + intros (i & c & Hi & G & Hin). destruct (Gsome _ _ Hi G) as [_ G0]. exists i, c. auto.
    + intros (i & c & Hi & G & Hin). exists i, c. rewrite Gold; auto. split; auto.
      eapply (getb_some_range s i _ HI0 Hi G).
Qed.

(* ---------- refinement to a finite map ---------- *)
Definition amap := list (Z * Z).
Definition a_step (m : amap) (o : hop) : amap * Z :=
  match o with
  | HIns k v => match lookup k m with Some _ => (m, 0) | None => ((k, v) :: m, 1) end
  | HErase k => match lookup k m with Some _ => (remove k m, 1) | None => (m, 0) end
  | HFind k => (m, match lookup k m with Some v => v | None => -1 end)
  end.
Definition key_of (o : hop) : Z := match o with HIns k _ => k | HErase k => k | HFind k => k end.
Definition R (s : hm) (m : amap) : Prop := NoDup (map fst m) /\ forall k v, holds s k v <-> In (k, v) m.

Lemma option_ext {A} (a b : option A) : (forall v, a = Some v <-> b = Some v) -> a = b.
Proof.
  intros H. destruct a as [x|], b as [y|]; auto.
  - destruct (H x) as [H1 _]. rewrite H1; auto.
  - destruct (H x) as [H1 _]. specialize (H1 eq_refl). discriminate.
  - destruct (H y) as [_ H1]. specialize (H1 eq_refl). discriminate.
Qed.

Lemma notin_keys k (c : list (Z * Z)) : lookup k c = None -> ~ In k (map fst c).
Proof.
  intros H Hin. apply in_map_iff in Hin. destruct Hin as ([k' v] & E & Hin). cbn in E. subst k'.
  eapply lookup_None_notin; eauto.
Qed.

Lemma pair_in_dec (x : Z * Z) (l : list (Z * Z)) : {In x l} + {~ In x l}.
Proof. apply in_dec. decide equality; apply Z.eq_dec. Qed.

Lemma In_remove k k' v' (c : list (Z * Z)) : In (k', v') (remove k c) <-> In (k', v') c /\ k' <> k.
Proof.
  unfold remove. rewrite filter_In. cbn. split; intros [H1 H2]; split; auto; lia.
Qed.

(* the common prefix of every operation: acquire the key's home bucket *)
Lemma acquire_home s m k :
  Inv s -> R s m -> 0 <= k ->
  let j := k mod 2 ^ h_bits s in
  let s1 := acquire (fuel_of s) s j in
  Inv s1 /\ R s1 m /\ h_bits s1 = h_bits s /\ h_size s1 = h_size s /\
  (exists c, getb s1 j = Some (Some c) /\ chain_of s1 j = c /\ NoDup (map fst c) /\
             lookup k c = lookup k m /\ (forall v, holds s1 k v <-> In (k, v) c)).
Proof.
  intros HI [Hnm HR] Hk j s1.
  assert (Hb : 1 <= h_bits s) by (destruct HI; auto).
  destruct (home_onpath k (h_bits s) Hb Hk) as [Hr _]. fold j in Hr.
  destruct (acquire_ok (fuel_of s) s j HI Hr (fuel_ok s j HI Hr)) as (HI1 & Hb1 & Hs1 & Hh1 & [c Gc] & _).
  fold s1 in HI1, Hb1, Hs1, Hh1, Gc.
  split; [auto|]. split; [split; auto; intros; rewrite Hh1; apply HR|]. split; [auto|]. split; [auto|].
  exists c. split; [auto|]. split; [unfold chain_of; rewrite Gc; reflexivity|].
  assert (Hndc : NoDup (map fst c)).
  { destruct HI1 as (_ & _ & _ & Hnd & _). eapply Hnd; [|exact Gc]. lia. }
  split; [auto|].
  assert (Hhc : forall v, holds s1 k v <-> In (k, v) c).
  { intros v. assert (X := home_chain s1 k v HI1 Hk). rewrite Hb1 in X. fold j in X.
    unfold chain_of in X. rewrite Gc in X. apply X. eauto. }
  split; [|auto].
  apply option_ext. intros v. rewrite (lookup_In k c v Hndc), (lookup_In k m v Hnm), <- Hhc, Hh1. apply HR.
Qed.

Theorem step_refines s m o :
  Inv s -> R s m -> 0 <= key_of o -> 1 <= hm_first_block ->
  fst (h_step s o) = fst (h_step s o) /\
  snd (h_step s o) = snd (a_step m o) /\ Inv (fst (h_step s o)) /\ R (fst (h_step s o)) (fst (a_step m o)).
Proof.
  intros HI HR Hk Hfb. split; [reflexivity|].
  destruct o as [k v|k|k]; cbn [key_of] in Hk; cbn [h_step a_step].
  - (* insert *)
    unfold h_insert.
    destruct (acquire_home s m k HI HR Hk) as (HI1 & HR1 & Hb1 & Hs1 & c & Gc & Ec & Hndc & El & Hhc).
    set (j := k mod 2 ^ h_bits s) in *. set (s1 := acquire (fuel_of s) s j) in *.
    rewrite Ec, El. destruct (lookup k m) as [v0|] eqn:Em; cbn [fst snd]; [auto|].
    assert (Gc' : getb s1 (k mod 2 ^ h_bits s1) = Some (Some c)) by (rewrite Hb1; exact Gc).
    assert (Elc : lookup k c = None) by congruence.
    destruct (set_home s1 k c ((k, v) :: c) HI1 Hk Gc') as (HI2 & Hh2).
    { cbn. constructor; [apply notin_keys; auto | auto]. }
    { intros k' v' [X|X]; [inv X; auto | auto]. }
    rewrite Hb1 in HI2, Hh2. fold j in HI2, Hh2.
    set (s2 := setb s1 j (Some ((k, v) :: c))) in *.
    set (s3 := mkhm (h_bits s2) (h_buckets s2) (h_size s2 + 1)).
    assert (HI3 : Inv s3) by (apply Inv_size_irrelevant; auto).
    destruct HR1 as [Hnm HR1].
    assert (HR3 : R s3 ((k, v) :: m)).
    { split; [cbn; constructor; [apply notin_keys; auto | auto]|].
      intros k' v'. unfold s3. rewrite holds_size_irrelevant, Hh2. cbn [In]. split.
      - intros [[H1 H2]|[H1|H1]]; [right; apply HR1; auto | left; auto | right; apply HR1].
        exists j, c. split; [|split; auto]. apply Z.mod_pos_bound. apply pow2_pos. destruct HI; lia.
      - intros [H1|H1]; [right; left; auto|].
        destruct (pair_in_dec (k', v') c) as [Hc|Hc]; [right; right; auto | left; split; auto; apply HR1; auto]. }
    destruct (h_size s3 >=? h_mask s) eqn:Eg; cbn [fst snd].
    + destruct (grow_ok s3 HI3 Hfb) as (HI4 & Hh4). split; [auto|]. split; [auto|].
      destruct HR3 as [X Y]. split; auto. intros; rewrite Hh4; apply Y.
    + auto.
  - (* erase *)
    unfold h_erase.
    destruct (acquire_home s m k HI HR Hk) as (HI1 & HR1 & Hb1 & Hs1 & c & Gc & Ec & Hndc & El & Hhc).
    set (j := k mod 2 ^ h_bits s) in *. set (s1 := acquire (fuel_of s) s j) in *.
    rewrite Ec, El. destruct (lookup k m) as [v0|] eqn:Em; cbn [fst snd]; [|auto].
    assert (Gc' : getb s1 (k mod 2 ^ h_bits s1) = Some (Some c)) by (rewrite Hb1; exact Gc).
    destruct (set_home s1 k c (remove k c) HI1 Hk Gc') as (HI2 & Hh2).
    { apply NoDup_map_filter; auto. }
    { intros k' v' X. apply In_remove in X. tauto. }
    rewrite Hb1 in HI2, Hh2. fold j in HI2, Hh2.
    set (s2 := setb s1 j (Some (remove k c))) in *.
    split; [auto|]. split; [apply Inv_size_irrelevant; auto|].
    destruct HR1 as [Hnm HR1]. split; [apply NoDup_map_filter; auto|].
    intros k' v'. rewrite holds_size_irrelevant, Hh2, !In_remove. split.
    + intros [[H1 H2]|[H1 H2]].
      * split; [apply HR1; auto|]. intros ->. apply H2. apply Hhc. auto.
      * split; auto. apply HR1. exists j, c. split; [|split; auto].
        apply Z.mod_pos_bound. apply pow2_pos. destruct HI; lia.
    + intros [H1 H2]. destruct (pair_in_dec (k', v') c) as [Hc|Hc]; [right; auto | left; split; auto; apply HR1; auto].
  - (* find *)
    unfold h_find.
    destruct (acquire_home s m k HI HR Hk) as (HI1 & HR1 & Hb1 & Hs1 & c & Gc & Ec & Hndc & El & Hhc).
    cbn [fst snd]. rewrite Ec, El. auto.
Qed.

Fixpoint h_run (s : hm) (ops : list hop) : hm * list Z :=
  match ops with
  | [] => (s, [])
  | o :: tl => let '(s1, r) := h_step s o in let '(s2, rs) := h_run s1 tl in (s2, r :: rs)
  end.
Fixpoint a_run (m : amap) (ops : list hop) : amap * list Z :=
  match ops with
  | [] => (m, [])
  | o :: tl => let '(m1, r) := a_step m o in let '(m2, rs) := a_run m1 tl in (m2, r :: rs)
  end.

Lemma run_refines ops : forall s m,
  Inv s -> R s m -> Forall (fun o => 0 <= key_of o) ops -> 1 <= hm_first_block ->
  snd (h_run s ops) = snd (a_run m ops) /\ Inv (fst (h_run s ops)) /\ R (fst (h_run s ops)) (fst (a_run m ops)).
Proof.
  induction ops as [|o tl IH]; intros s m HI HR Hk Hfb; cbn [h_run a_run].
  - auto.
  - inv Hk. destruct (step_refines s m o HI HR H1 Hfb) as (_ & Er & HI1 & HR1).
    destruct (h_step s o) as [s1 r] eqn:E1. destruct (a_step m o) as [m1 r'] eqn:E2. cbn [fst snd] in *.
    destruct (IH s1 m1 HI1 HR1 H2 Hfb) as (Ers & HI2 & HR2).
    destruct (h_run s1 tl) as [s2 rs]. destruct (a_run m1 tl) as [m2 rs']. cbn [fst snd] in *.
    split; [congruence | auto].
Qed.

Lemma Inv_init : Inv h_init /\ R h_init [].
Proof.
  unfold h_init. change hm_embedded_block with 1. change hm_embedded_buckets with 2. cbn [Z.to_nat Pos.to_nat Pos.iter_op Init.Nat.add repeat].
  assert (G : forall i x, 0 <= i -> getb (mkhm 1 [Some []; Some []] 0) i = Some x -> x = Some []).
  { intros i x Hi. unfold getb. cbn [h_buckets]. destruct (Z.to_nat i) as [|[|n]] eqn:E; cbn; intros H; try congruence.
    destruct n; discriminate. }
  split.
  - split; [cbn; lia|]. split; [reflexivity|]. split; [|split].
    + intros j Hj H. apply G in H; [discriminate | lia].
    + intros i c Hi H. apply G in H; auto. inv H. constructor.
    + intros i c k v Hi H Hin. apply G in H; auto. inv H. destruct Hin.
  - split; [constructor|]. intros k v. split; [|intros []].
    intros (i & c & Hi & H & Hin). apply G in H; auto. inv H. destruct Hin.
Qed.
