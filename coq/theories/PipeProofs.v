From OTV Require Import Lib.Tac Params PipeModel.
Local Open Scope Z_scope.

(* ---------- list / modular arithmetic helpers ---------- *)
Lemma upd_length {A} (l : list A) i v : length (upd l i v) = length l.
Proof. revert i; induction l as [|x l IH]; intros [|i]; cbn; auto. Qed.
Lemma nth_upd_eq {A} (l : list A) i v d : (i < length l)%nat -> nth i (upd l i v) d = v.
Proof. revert i; induction l as [|x l IH]; intros [|i] H; cbn in *; try lia; auto. apply IH. lia. Qed.
Lemma nth_upd_neq {A} (l : list A) i j v d : i <> j -> nth j (upd l i v) d = nth j l d.
Proof. revert i j; induction l as [|x l IH]; intros [|i] [|j] H; cbn; auto; try congruence. Qed.

Lemma mod_window_inj n a b lo : 0 < n -> lo <= a < lo + n -> lo <= b < lo + n -> a mod n = b mod n -> a = b.
Proof.
  intros Hn Ha Hb H.
  pose proof (Z.div_mod a n ltac:(lia)). pose proof (Z.div_mod b n ltac:(lia)).
  pose proof (Z.mod_pos_bound a n Hn). pose proof (Z.mod_pos_bound b n Hn).
  assert (a - b = n * (a / n - b / n)) by lia.
  assert (- n < a - b < n) by lia.
  assert (a / n - b / n = 0) by nia. lia.
Qed.

Lemma slot_lt size t : 0 < size -> (slot_of size t < Z.to_nat size)%nat.
Proof. intros H. unfold slot_of. pose proof (Z.mod_pos_bound t size H). lia. Qed.

Lemma slot_inj size a b lo : 0 < size -> lo <= a < lo + size -> lo <= b < lo + size -> slot_of size a = slot_of size b -> a = b.
Proof.
  intros Hs Ha Hb H. unfold slot_of in H.
  pose proof (Z.mod_pos_bound a size Hs). pose proof (Z.mod_pos_bound b size Hs).
  apply (mod_window_inj size a b lo); auto. lia.
Qed.

Lemma slot_lt_len b t : 0 < asize b -> (slot_of (asize b) t < length (arr b))%nat.
Proof.
  intros H. pose proof (slot_lt (asize b) t H) as H1. unfold asize in H1 at 2. rewrite Nat2Z.id in H1. exact H1.
Qed.

(* ---------- representation invariant: the array encodes the set of parked (token, item) pairs ---------- *)
Definition tokens_of (parked : list (Z * tinfo)) : list Z := map fst parked.

Definition Rep (b : ibuf) (parked : list (Z * tinfo)) : Prop :=
  0 < asize b /\
  NoDup (tokens_of parked) /\
  (forall t i, In (t, i) parked -> low b < t < low b + asize b /\ nth (slot_of (asize b) t) (arr b) None = Some i) /\
  (forall s i, (s < length (arr b))%nat -> nth s (arr b) None = Some i ->
               exists t, In (t, i) parked /\ s = slot_of (asize b) t).

Lemma rep_slot_free b parked t :
  Rep b parked -> low b <= t < low b + asize b -> ~ In t (tokens_of parked) ->
  nth (slot_of (asize b) t) (arr b) None = None.
Proof.
  intros (Hs & Hnd & Hp & Ha) Ht Hn.
  destruct (nth (slot_of (asize b) t) (arr b) None) as [i|] eqn:E; auto. exfalso.
  destruct (Ha _ i (slot_lt_len b t Hs) E) as (t' & Hin & Hsl).
  destruct (Hp _ _ Hin) as (Hw & _).
  assert (t = t') by (apply (slot_inj (asize b) t t' (low b)); auto; lia).
  subst. apply Hn. unfold tokens_of. apply in_map_iff. exists (t', i). auto.
Qed.

(* parking an item whose token lies inside the current window *)
Lemma rep_park b parked t info :
  Rep b parked -> low b < t < low b + asize b -> ~ In t (tokens_of parked) ->
  Rep (mkbuf (upd (arr b) (slot_of (asize b) t) (Some info)) (low b) (high b) (ordered b)) ((t, info) :: parked).
Proof.
  intros HR Ht Hn. pose proof (rep_slot_free b parked t HR ltac:(lia) Hn) as Hfree.
  destruct HR as (Hs & Hnd & Hp & Ha).
  assert (Hsz : asize (mkbuf (upd (arr b) (slot_of (asize b) t) (Some info)) (low b) (high b) (ordered b)) = asize b).
  { unfold asize. cbn [arr]. rewrite upd_length. auto. }
  unfold Rep. rewrite Hsz. cbn [arr low]. repeat split; auto.
  - cbn. constructor; auto.
  - destruct H as [H|H]; [inv H; lia|]. destruct (Hp _ _ H). lia.
  - destruct H as [H|H]; [inv H; lia|]. destruct (Hp _ _ H). lia.
  - destruct H as [H|H].
    + inv H. apply nth_upd_eq. apply slot_lt_len; auto.
    + destruct (Hp _ _ H) as (Hw & Hnth). rewrite nth_upd_neq; auto.
      intros Heq. assert (t = t0) by (apply (slot_inj (asize b) t t0 (low b)); auto; lia). subst.
      apply Hn. apply in_map_iff. exists (t0, i). auto.
  - intros s i Hs' Hnth. rewrite upd_length in Hs'.
    destruct (Nat.eq_dec (slot_of (asize b) t) s) as [<-|Hne].
    + rewrite nth_upd_eq in Hnth by (apply slot_lt_len; auto). inv Hnth. exists t. split; auto. left; auto.
    + rewrite nth_upd_neq in Hnth by auto. destruct (Ha _ _ Hs' Hnth) as (t' & Hin & ->). exists t'. split; auto. right; auto.
Qed.

(* note_done: the slot of low+1 holds exactly the item parked under that token, if any *)
Definition lookup (parked : list (Z * tinfo)) (t : Z) : option tinfo :=
  match find (fun p => fst p =? t) parked with Some (_, i) => Some i | None => None end.
Definition drop (parked : list (Z * tinfo)) (t : Z) : list (Z * tinfo) := filter (fun p => negb (fst p =? t)) parked.

Lemma lookup_in parked t i : NoDup (tokens_of parked) -> (lookup parked t = Some i <-> In (t, i) parked).
Proof.
  unfold lookup, tokens_of. induction parked as [|[t' i'] l IH]; intros Hnd; cbn [find fst map] in *.
  - split; [discriminate|intros []].
  - inv Hnd. destruct (t' =? t) eqn:E.
    + assert (t' = t) by lia. subst. split.
      * intros H. inv H. left; auto.
      * intros [H|H]; [inv H; auto|]. exfalso. apply H1. apply in_map_iff. exists (t, i). auto.
    + rewrite IH by auto. split; [right; auto|]. intros [H|H]; [inv H; lia|auto].
Qed.

Lemma lookup_none parked t : lookup parked t = None -> ~ In t (tokens_of parked).
Proof.
  unfold lookup, tokens_of. induction parked as [|[t' i'] l IH]; cbn [find fst map]; intros H; [intros []|].
  destruct (t' =? t) eqn:E; [discriminate|]. intros [Hx|Hx]; [cbn in Hx; lia|]. apply IH; auto.
Qed.

Lemma drop_in parked t t' i : In (t', i) (drop parked t) <-> In (t', i) parked /\ t' <> t.
Proof. unfold drop. rewrite filter_In. cbn [fst]. split; intros [H1 H2]; split; auto; lia. Qed.

Lemma drop_nodup parked t : NoDup (tokens_of parked) -> NoDup (tokens_of (drop parked t)).
Proof.
  unfold tokens_of, drop. induction parked as [|[t' i'] l IH]; cbn; intros H; [constructor|].
  inv H. destruct (t' =? t); cbn; auto. constructor; auto.
  intros Hin. apply H2. apply in_map_iff in Hin. destruct Hin as ([a c] & <- & Hf). apply filter_In in Hf.
  apply in_map_iff. exists (a, c). tauto.
Qed.

Lemma rep_done b parked :
  Rep b parked ->
  let '(b', w) := note_done b in
  w = lookup parked (low b + 1) /\ Rep b' (drop parked (low b + 1)) /\ low b' = low b + 1 /\ asize b' = asize b.
Proof.
  intros HR. pose proof HR as (Hs & Hnd & Hp & Ha). unfold note_done.
  set (l := low b + 1). set (s := slot_of (asize b) l).
  assert (Hsl : (s < length (arr b))%nat) by (apply slot_lt_len; auto).
  assert (Hsz : asize (mkbuf (upd (arr b) s None) l (high b) (ordered b)) = asize b).
  { unfold asize. cbn [arr]. rewrite upd_length. auto. }
  split; [|split; [|split; auto]].
  - destruct (lookup parked l) as [i|] eqn:El.
    + apply lookup_in in El; auto. destruct (Hp _ _ El) as (_ & Hn). exact Hn.
    + apply lookup_none in El.
      destruct (Z_lt_le_dec l (low b + asize b)) as [Hin|Hout].
      * apply (rep_slot_free b parked l HR); auto. unfold l. lia.
      * (* size = 1: nothing can be parked *)
        destruct (nth s (arr b) None) as [i|] eqn:E; auto. exfalso.
        destruct (Ha _ _ Hsl E) as (t & Hin & _). destruct (Hp _ _ Hin). unfold l in *. lia.
  - unfold Rep. rewrite Hsz. cbn [arr low]. repeat split; auto.
    + apply drop_nodup; auto.
    + apply drop_in in H. destruct H as (H & Hne). destruct (Hp _ _ H). unfold l in *. lia.
    + apply drop_in in H. destruct H as (H & Hne). destruct (Hp _ _ H). unfold l in *. lia.
    + apply drop_in in H. destruct H as (H & Hne). destruct (Hp _ _ H) as (Hw & Hn).
      rewrite nth_upd_neq; auto. intros Heq.
      destruct (Z_lt_le_dec l (low b + asize b)) as [Hin|Hout]; [|unfold l in *; lia].
      apply Hne. symmetry. apply (slot_inj (asize b) l t (low b)); auto; unfold l in *; lia.
    + intros s' i Hs' Hn. rewrite upd_length in Hs'.
      destruct (Nat.eq_dec s s') as [<-|Hne]; [rewrite nth_upd_eq in Hn by auto; discriminate|].
      rewrite nth_upd_neq in Hn by auto. destruct (Ha _ _ Hs' Hn) as (t & Hin & ->).
      exists t. split; auto. apply drop_in. split; auto. intros ->. apply Hne. reflexivity.
Qed.

(* ---------- grow ---------- *)
Lemma copy_window_length n : forall old new osz nsz t, length (copy_window n old new osz nsz t) = length new.
Proof. induction n as [|n IH]; intros; cbn [copy_window]; auto. rewrite IH, upd_length. auto. Qed.

Lemma copy_window_hit n : forall old new osz nsz t t',
  0 < nsz -> Z.of_nat n <= nsz -> Z.of_nat (length new) = nsz -> t <= t' < t + Z.of_nat n ->
  nth (slot_of nsz t') (copy_window n old new osz nsz t) None = nth (slot_of osz t') old None.
Proof.
  induction n as [|n IH]; intros old new osz nsz t t' Hn Hle Hlen Ht; [lia|]. cbn [copy_window].
  destruct (Z.eq_dec t' t) as [->|Hne].
  - (* written now, never overwritten later *)
    clear IH. 
    assert (Hmiss : forall m new' t0, t < t0 -> t0 + Z.of_nat m <= t + nsz -> Z.of_nat (length new') = nsz ->
              nth (slot_of nsz t) (copy_window m old new' osz nsz t0) None = nth (slot_of nsz t) new' None).
    { induction m as [|m IHm]; intros new' t0 Hlt Hb Hl; cbn [copy_window]; auto.
      rewrite IHm; try lia; [|rewrite upd_length; auto].
      apply nth_upd_neq. intros Heq. assert (t0 = t) by (apply (slot_inj nsz t0 t t); auto; lia). lia. }
    rewrite Hmiss; try lia; [|rewrite upd_length; auto].
    apply nth_upd_eq. pose proof (slot_lt nsz t Hn). lia.
  - apply IH; auto; try lia. rewrite upd_length. auto.
Qed.

Lemma copy_window_some n : forall old new osz nsz t s i,
  nth s (copy_window n old new osz nsz t) None = Some i ->
  (exists t', t <= t' < t + Z.of_nat n /\ s = slot_of nsz t' /\ nth (slot_of osz t') old None = Some i) \/
  nth s new None = Some i.
Proof.
  induction n as [|n IH]; intros old new osz nsz t s i H; cbn [copy_window] in H; auto.
  apply IH in H. destruct H as [(t' & Ht' & Hs & Ho)|H].
  - left. exists t'. repeat split; auto; lia.
  - destruct (Nat.eq_dec (slot_of nsz t) s) as [<-|Hne].
    + destruct (Nat.lt_ge_cases (slot_of nsz t) (length new)) as [Hlt|Hge].
      * rewrite nth_upd_eq in H by auto. left. exists t. repeat split; auto; lia.
      * rewrite nth_overflow in H by (rewrite upd_length; lia). discriminate.
    + rewrite nth_upd_neq in H by auto. auto.
Qed.

Lemma nth_repeat_none {A} n s : nth s (repeat (@None A) n) None = None.
Proof. revert s; induction n as [|n IH]; intros [|s]; cbn; auto. Qed.

Lemma rep_grow b parked nsz :
  Rep b parked -> asize b <= nsz ->
  let b' := mkbuf (copy_window (length (arr b)) (arr b) (repeat None (Z.to_nat nsz)) (asize b) nsz (low b)) (low b) (high b) (ordered b) in
  Rep b' parked /\ asize b' = nsz /\ low b' = low b /\ high b' = high b /\ ordered b' = ordered b.
Proof.
  intros (Hs & Hnd & Hp & Ha) Hle b'.
  assert (Hsz : asize b' = nsz).
  { unfold asize, b'. cbn [arr]. rewrite copy_window_length, repeat_length. lia. }
  split; [|repeat split; auto].
  unfold Rep. rewrite Hsz. cbn [arr low b']. repeat split; auto; try lia;
    try (match goal with H : In (_, _) parked |- _ => destruct (Hp _ _ H); lia end).
  - destruct (Hp _ _ H) as (Hw & Hn). rewrite copy_window_hit; auto; try lia.
    + rewrite repeat_length. lia.
    + unfold asize in *. lia.
  - intros s i Hs' Hn. apply copy_window_some in Hn. destruct Hn as [(t' & Ht' & -> & Ho)|Hn].
    + assert (Hsl : (slot_of (asize b) t' < length (arr b))%nat) by (apply slot_lt_len; auto).
      destruct (Ha _ _ Hsl Ho) as (t & Hin & Heq). destruct (Hp _ _ Hin) as (Hw & _).
      assert (t' = t) by (apply (slot_inj (asize b) t' t (low b)); auto; unfold asize in *; lia).
      subst t'. exists t. auto.
    + rewrite nth_repeat_none in Hn. discriminate.
Qed.

Lemma grow_size_ge fuel : forall sz m, 0 < sz -> sz <= grow_size fuel sz m.
Proof. induction fuel as [|f IH]; intros sz m H; cbn [grow_size]; [lia|]. destruct (sz <? m); [|lia]. specialize (IH (2 * sz) m ltac:(lia)). lia. Qed.

Lemma grow_size_reaches fuel : forall sz m, 0 < sz -> m <= sz * 2 ^ Z.of_nat fuel -> m <= grow_size fuel sz m.
Proof.
  induction fuel as [|f IH]; intros sz m H Hm; cbn [grow_size].
  - change (2 ^ Z.of_nat 0) with 1 in Hm. lia.
  - destruct (sz <? m) eqn:E; [|lia]. apply IH; [lia|].
    rewrite Nat2Z.inj_succ, Z.pow_succ_r in Hm by lia. lia.
Qed.

(* ---------- try_put_token ---------- *)
(* token the buffer uses for this arrival *)
Definition arrival_token (b : ibuf) (info : tinfo) : Z :=
  if ordered b then (if t_ready info then t_token info else high b) else high b.

Definition put_tail (b : ibuf) (high' : Z) (info' : tinfo) (t : Z) : ibuf * tinfo * bool :=
  let b1 := mkbuf (arr b) (low b) high' (ordered b) in
  if t =? low b then (b1, info', false)
  else
    let b2 := if asize b1 <=? t - low b1 then grow b1 (t - low b1 + 1) else b1 in
    (mkbuf (upd (arr b2) (slot_of (asize b2) t) (Some info')) (low b2) (high b2) (ordered b2), info', true).

Lemma put_tail_spec b parked high' info' t :
  Rep b parked -> low b <= t -> ~ In t (tokens_of parked) -> t - low b < asize b * 2 ^ 64 ->
  let '(b', i', was_parked) := put_tail b high' info' t in
  i' = info' /\ low b' = low b /\ ordered b' = ordered b /\
  (was_parked = false <-> t = low b) /\
  (was_parked = false -> Rep b' parked /\ asize b' = asize b) /\
  (was_parked = true -> Rep b' ((t, info') :: parked) /\ asize b <= asize b' /\ t < low b + asize b').
Proof.
  intros HR Hlow Hnin Hbig. unfold put_tail.
  set (b1 := mkbuf (arr b) (low b) high' (ordered b)).
  assert (HR1 : Rep b1 parked) by (destruct HR as (? & ? & ? & ?); unfold Rep, b1, asize in *; cbn [arr low]; auto).
  assert (Hs1 : asize b1 = asize b) by reflexivity.
  destruct (t =? low b) eqn:Et.
  - split; [reflexivity|]. split; [reflexivity|]. split; [reflexivity|].
    split; [split; [intros _; lia|reflexivity]|]. split; [intros _; split; [exact HR1|reflexivity]|discriminate].
  - assert (Hlt : low b < t) by lia.
    destruct (asize b1 <=? t - low b1) eqn:Eg; cbn [low b1] in Eg |- *.
    + unfold grow. cbn [arr low high ordered].
      set (nsz := grow_size 64 (2 * asize b1) (t - low b + 1)).
      pose proof HR1 as (Hs & _).
      assert (Hn1 : 2 * asize b1 <= nsz) by (apply grow_size_ge; lia).
      assert (Hn2 : t - low b + 1 <= nsz).
      { apply grow_size_reaches; [lia|]. change (Z.of_nat 64) with 64. rewrite Hs1. lia. }
      destruct (rep_grow b1 parked nsz HR1 ltac:(lia)) as (HRg & Hsz & Hl & Hh & Ho).
      cbn [low high ordered b1] in HRg, Hl, Hh, Ho, Hsz.
      set (bg := mkbuf (copy_window (length (arr b1)) (arr b1) (repeat None (Z.to_nat nsz)) (asize b1) nsz (low b)) (low b) high' (ordered b)) in *.
      pose proof (rep_park bg parked t info' HRg ltac:(cbn [low bg]; rewrite Hsz; lia) Hnin) as Hp.
      assert (Hsz2 : asize (mkbuf (upd (arr bg) (slot_of (asize bg) t) (Some info')) (low bg) (high bg) (ordered bg)) = nsz).
      { unfold asize at 1. cbn [arr]. rewrite upd_length. exact Hsz. }
      cbn [low high ordered bg] in *.
      split; [reflexivity|]. split; [reflexivity|]. split; [reflexivity|].
      split; [split; [discriminate|intros; lia]|]. split; [discriminate|].
      intros _. split; [exact Hp|].
      match goal with |- _ <= asize ?X /\ _ < _ + asize ?X =>
        assert (HX : asize X = nsz) by (unfold asize; cbn [arr]; rewrite upd_length, copy_window_length, repeat_length; lia);
        rewrite HX end. lia.
    + pose proof (rep_park b1 parked t info' HR1 ltac:(cbn [low b1]; lia) Hnin) as Hp.
      assert (Hsz2 : asize (mkbuf (upd (arr b1) (slot_of (asize b1) t) (Some info')) (low b1) (high b1) (ordered b1)) = asize b).
      { unfold asize at 1. cbn [arr]. rewrite upd_length. reflexivity. }
      cbn [low high ordered b1] in *.
      split; [reflexivity|]. split; [reflexivity|]. split; [reflexivity|].
      split; [split; [discriminate|intros; lia]|]. split; [discriminate|].
      intros _. split; [exact Hp|].
      match goal with |- _ <= asize ?X /\ _ < _ + asize ?X =>
        assert (HX : asize X = asize b) by (unfold asize; cbn [arr b1]; rewrite upd_length; reflexivity);
        rewrite HX end. lia.
Qed.

Lemma try_put_unfold b info :
  try_put b info =
  put_tail b (if ordered b then (if t_ready info then high b else high b + 1) else high b + 1)
           (if ordered b then (if t_ready info then info else mkinfo (t_obj info) (high b) true) else info)
           (arrival_token b info).
Proof.
  unfold try_put, put_tail, arrival_token.
  destruct (ordered b) eqn:Eo; [destruct (t_ready info) eqn:Er|]; cbn [t_token t_ready]; rewrite ?Eo, ?Er; reflexivity.
Qed.

(* ---------- the serial filter as a machine driven by an arbitrary environment ---------- *)
(* ghost state: the buffer, the parked set, whether an item is inside the filter, the tokens that have arrived
   so far, and the admission log (tokens of the items let into the filter, newest first) *)
Record fstate := mkf { f_buf : ibuf; f_parked : list (Z * tinfo); f_running : bool; f_arrived : list Z; f_log : list Z }.

Inductive fop := Arrive (info : tinfo) | Finish.

Definition mem (t : Z) (l : list Z) : bool := existsb (Z.eqb t) l.

(* one step; None = the environment broke the protocol: a token arrived twice or below the start, or Finish was
   signalled with no item inside the filter *)
Definition fstep (low0 : Z) (s : fstate) (o : fop) : option fstate :=
  match o with
  | Arrive info =>
      let t := arrival_token (f_buf s) info in
      if (low0 <=? t) && (t <? low0 + 2 ^ 62) && negb (mem t (f_arrived s)) then
        let '(b', info', parked) := try_put (f_buf s) info in
        if parked then Some (mkf b' ((t, info') :: f_parked s) (f_running s) (t :: f_arrived s) (f_log s))
        else Some (mkf b' (f_parked s) true (t :: f_arrived s) (t :: f_log s))
      else None
  | Finish =>
      if f_running s then
        let '(b', w) := note_done (f_buf s) in
        match w with
        | Some _ => Some (mkf b' (drop (f_parked s) (low b')) true (f_arrived s) (low b' :: f_log s))
        | None => Some (mkf b' (f_parked s) false (f_arrived s) (f_log s))
        end
      else None
  end.

Fixpoint frun (low0 : Z) (s : fstate) (ops : list fop) : option fstate :=
  match ops with
  | [] => Some s
  | o :: tl => match fstep low0 s o with Some s' => frun low0 s' tl | None => None end
  end.

(* [low0 + n - 1; ...; low0 + 1; low0] *)
Fixpoint expected_log (low0 : Z) (n : nat) : list Z :=
  match n with O => [] | S k => (low0 + Z.of_nat k) :: expected_log low0 k end.

Definition FInv (low0 : Z) (s : fstate) : Prop :=
  let b := f_buf s in
  Rep b (f_parked s) /\ low0 <= low b /\
  (forall t, In t (tokens_of (f_parked s)) -> In t (f_arrived s)) /\
  (forall t, low0 <= t < low b -> In t (f_arrived s)) /\
  (f_running s = true -> In (low b) (f_arrived s) /\ f_log s = expected_log low0 (Z.to_nat (low b - low0 + 1))) /\
  (f_running s = false -> f_log s = expected_log low0 (Z.to_nat (low b - low0))).

Lemma mem_in t l : mem t l = true <-> In t l.
Proof. unfold mem. rewrite existsb_exists. split; [intros (x & H & E); assert (t = x) by lia; subst; auto|intros H; exists t; split; auto; lia]. Qed.

Lemma expected_log_succ low0 n : expected_log low0 (S n) = (low0 + Z.of_nat n) :: expected_log low0 n.
Proof. reflexivity. Qed.

Lemma fstep_inv low0 s o s' : FInv low0 s -> fstep low0 s o = Some s' -> FInv low0 s'.
Proof.
  intros (HR & Hl0 & Hpa & Hadm & Hrun & Hnrun) H. unfold fstep in H.
  destruct o as [info|].
  - set (t := arrival_token (f_buf s) info) in *.
    destruct ((low0 <=? t) && (t <? low0 + 2 ^ 62) && negb (mem t (f_arrived s))) eqn:Ed; [|discriminate].
    assert (Ht0 : low0 <= t < low0 + 2 ^ 62) by lia.
    assert (Hna : ~ In t (f_arrived s)).
    { intros Hi. apply mem_in in Hi. rewrite Hi in Ed. rewrite andb_false_r in Ed. discriminate. }
    assert (Hge : low (f_buf s) <= t).
    { destruct (Z_lt_le_dec t (low (f_buf s))); auto. exfalso. apply Hna. apply Hadm. lia. }
    assert (Hnp : ~ In t (tokens_of (f_parked s))) by (intros Hi; apply Hna; auto).
    pose proof HR as (Hs0 & _).
    assert (Hbig : t - low (f_buf s) < asize (f_buf s) * 2 ^ 64) by nia.
    rewrite try_put_unfold in H. fold t in H.
    match type of H with context [put_tail ?b ?h ?i ?tt] =>
      pose proof (put_tail_spec b (f_parked s) h i tt HR Hge Hnp Hbig) as Hspec;
      destruct (put_tail b h i tt) as [[b' info'] parked] eqn:Ep end.
    destruct Hspec as (Hi' & Hlow' & Hord' & Hiff & Hfalse & Htrue).
    destruct parked.
    + injection H as <-. destruct (Htrue eq_refl) as (HR' & Hsz1 & Hwin).
      unfold FInv. cbn [f_buf f_parked f_running f_arrived f_log]. rewrite Hlow'. subst info'.
      split; [exact HR'|]. split; [lia|].
      split; [|split; [|split]].
      * intros t0 [<-|Hi]; [left; auto|right; auto].
      * intros t0 Ht. right. apply Hadm. lia.
      * intros Hr. destruct (Hrun Hr) as (Ha & Hlg). split; [right; auto|auto].
      * intros Hr. auto.
    + injection H as <-. destruct (Hfalse eq_refl) as (HR' & Hsz1).
      assert (Htl : t = low (f_buf s)) by (apply Hiff; auto).
      assert (Hnr : f_running s = false).
      { destruct (f_running s) eqn:Er; auto. exfalso. destruct (Hrun eq_refl) as (Ha & _). apply Hna. rewrite Htl. exact Ha. }
      unfold FInv. cbn [f_buf f_parked f_running f_arrived f_log]. rewrite Hlow'.
      split; [exact HR'|]. split; [lia|].
      split; [|split; [|split]].
      * intros t0 Hi. right. auto.
      * intros t0 Ht. right. apply Hadm. lia.
      * intros _. split; [left; auto|]. rewrite (Hnrun Hnr).
        replace (Z.to_nat (low (f_buf s) - low0 + 1)) with (S (Z.to_nat (low (f_buf s) - low0))) by lia.
        rewrite expected_log_succ. f_equal. lia.
      * discriminate.
  - destruct (f_running s) eqn:Er; [|discriminate].
    pose proof (rep_done (f_buf s) (f_parked s) HR) as Hd.
    destruct (note_done (f_buf s)) as [b' w] eqn:En.
    destruct Hd as (Hw & HR' & Hlow' & Hsz').
    destruct (Hrun eq_refl) as (Ha & Hlg).
    pose proof HR as (_ & Hnd & Hpk & _).
    destruct w as [i|].
    + injection H as <-. symmetry in Hw. apply lookup_in in Hw; auto.
      unfold FInv. cbn [f_buf f_parked f_running f_arrived f_log]. rewrite Hlow'.
      split; [exact HR'|]. split; [lia|].
      split; [|split; [|split]].
      * intros t0 Hi. apply Hpa. unfold tokens_of in *. apply in_map_iff in Hi. destruct Hi as ([a c] & <- & Hi).
        apply drop_in in Hi. apply in_map_iff. exists (a, c). tauto.
      * intros t0 Ht. destruct (Z.eq_dec t0 (low (f_buf s))) as [->|Hne]; auto. apply Hadm. lia.
      * intros _. split.
        -- apply Hpa. apply in_map_iff. exists (low (f_buf s) + 1, i). auto.
        -- rewrite Hlg.
           replace (Z.to_nat (low (f_buf s) + 1 - low0 + 1)) with (S (Z.to_nat (low (f_buf s) - low0 + 1))) by lia.
           rewrite expected_log_succ. f_equal. lia.
      * discriminate.
    + injection H as <-. unfold FInv. cbn [f_buf f_parked f_running f_arrived f_log]. rewrite Hlow'.
      symmetry in Hw. apply lookup_none in Hw.
      assert (Hdrop : drop (f_parked s) (low (f_buf s) + 1) = f_parked s).
      { unfold drop. clear - Hw. induction (f_parked s) as [|[a c] l IH]; cbn [filter fst]; auto.
        destruct (a =? low (f_buf s) + 1) eqn:E.
        - exfalso. apply Hw. cbn. left. lia.
        - cbn [negb]. f_equal. apply IH. intros Hi. apply Hw. cbn. right. exact Hi. }
      rewrite Hdrop in HR'.
      split; [exact HR'|]. split; [lia|].
      split; [exact Hpa|]. split; [|split].
      * intros t0 Ht. destruct (Z.eq_dec t0 (low (f_buf s))) as [->|Hne]; auto. apply Hadm. lia.
      * discriminate.
      * intros _. rewrite Hlg. f_equal. lia.
Qed.

Lemma frun_inv low0 ops : forall s s', FInv low0 s -> frun low0 s ops = Some s' -> FInv low0 s'.
Proof.
  induction ops as [|o tl IH]; intros s s' Hi H; cbn [frun] in H.
  - inv H. auto.
  - destruct (fstep low0 s o) as [s1|] eqn:E; [|discriminate]. apply (IH s1 s'); [eapply fstep_inv; eauto|exact H].
Qed.

Definition finit (ord : bool) : fstate := mkf (init_buf ord) [] false [] [].

Lemma finit_inv ord : FInv 0 (finit ord).
Proof.
  unfold FInv, finit, init_buf. cbn [f_buf f_parked f_running f_arrived f_log low arr].
  split; [|repeat split; auto; try lia; try (intros ? []); try discriminate].
  unfold Rep, asize, tokens_of. cbn. repeat split; try lia; try constructor; try (intros ? ? []).
  all: intros Hn; repeat (destruct s as [|s]; try discriminate).
Qed.

(* ---------- consequences ---------- *)
(* in-order: whatever the arrival order, the admission log is low0, low0+1, low0+2, ... *)
Lemma admission_in_order_proof ord ops s :
  frun 0 (finit ord) ops = Some s ->
  exists n, f_log s = expected_log 0 n.
Proof.
  intros H. pose proof (frun_inv 0 ops _ _ (finit_inv ord) H) as (_ & _ & _ & _ & Hr & Hn).
  destruct (f_running s) eqn:E.
  - destruct (Hr eq_refl) as (_ & Hl). eexists; eauto.
  - eexists. apply Hn. auto.
Qed.

(* serial exclusion: an item is let in either on arrival while the filter is free, or by the Finish of its
   predecessor; it is never let in while another one is inside *)
Lemma serial_exclusion_proof ord ops s o s' :
  frun 0 (finit ord) ops = Some s -> fstep 0 s o = Some s' ->
  f_running s = true -> f_log s' <> f_log s -> o = Finish.
Proof.
  intros H Hs Hr Hlog. pose proof (frun_inv 0 ops _ _ (finit_inv ord) H) as Hinv.
  destruct o as [info|]; auto. exfalso.
  pose proof Hinv as (HR & Hl0 & Hpa & Hadm & Hrun & Hnrun).
  unfold fstep in Hs.
  set (t := arrival_token (f_buf s) info) in *.
  destruct ((0 <=? t) && (t <? 0 + 2 ^ 62) && negb (mem t (f_arrived s))) eqn:Ed; [|discriminate].
  assert (Hna : ~ In t (f_arrived s)).
  { intros Hi. apply mem_in in Hi. rewrite Hi in Ed. rewrite andb_false_r in Ed. discriminate. }
  assert (Hge : low (f_buf s) <= t).
  { destruct (Z_lt_le_dec t (low (f_buf s))); auto. exfalso. apply Hna. apply Hadm. lia. }
  assert (Hnp : ~ In t (tokens_of (f_parked s))) by (intros Hi; apply Hna; auto).
  pose proof HR as (Hs0 & _).
  assert (Hbig : t - low (f_buf s) < asize (f_buf s) * 2 ^ 64) by nia.
  rewrite try_put_unfold in Hs. fold t in Hs.
  match type of Hs with context [put_tail ?b ?h ?i ?tt] =>
    pose proof (put_tail_spec b (f_parked s) h i tt HR Hge Hnp Hbig) as Hspec;
    destruct (put_tail b h i tt) as [[b' info'] parked] eqn:Ep end.
  destruct Hspec as (_ & _ & _ & Hiff & _ & _).
  destruct parked.
  - injection Hs as <-. cbn in Hlog. congruence.
  - assert (t = low (f_buf s)) by (apply Hiff; auto).
    destruct (Hrun Hr) as (Ha & _). apply Hna. congruence.
Qed.

(* no loss: an item that had to wait is still parked (under its token) until it is admitted *)
Lemma no_loss_proof ord ops s :
  frun 0 (finit ord) ops = Some s ->
  forall t, In t (f_arrived s) -> t < low (f_buf s) \/ (t = low (f_buf s)) \/ In t (tokens_of (f_parked s)).
Proof.
  revert s. induction ops as [|o tl IH] using rev_ind; intros s H t Hin.
  - inv H. inv Hin.
  - (* run the prefix, then the last step *)
    assert (Hsplit : exists s1, frun 0 (finit ord) tl = Some s1 /\ fstep 0 s1 o = Some s).
    { clear IH Hin. revert H. generalize (finit ord). induction tl as [|x l IHl]; intros s0 H; cbn [app frun] in H.
      - destruct (fstep 0 s0 o) eqn:E; [|discriminate]. inv H. exists s0. split; auto.
      - cbn [frun]. destruct (fstep 0 s0 x) eqn:E; [|discriminate]. apply IHl in H. exact H. }
    destruct Hsplit as (s1 & Hrun1 & Hstep).
    specialize (IH s1 Hrun1).
    pose proof (frun_inv 0 tl _ _ (finit_inv ord) Hrun1) as Hinv.
    pose proof Hinv as (HR & Hl0 & Hpa & Hadm & Hrn & Hnrn).
    unfold fstep in Hstep. destruct o as [info|].
    + set (tt := arrival_token (f_buf s1) info) in *.
      destruct ((0 <=? tt) && (tt <? 0 + 2 ^ 62) && negb (mem tt (f_arrived s1))) eqn:Ed; [|discriminate].
      assert (Hna : ~ In tt (f_arrived s1)).
      { intros Hi. apply mem_in in Hi. rewrite Hi in Ed. rewrite andb_false_r in Ed. discriminate. }
      assert (Hge : low (f_buf s1) <= tt).
      { destruct (Z_lt_le_dec tt (low (f_buf s1))); auto. exfalso. apply Hna. apply Hadm. lia. }
      assert (Hnp : ~ In tt (tokens_of (f_parked s1))) by (intros Hi; apply Hna; auto).
      pose proof HR as (Hs0 & _).
      assert (Hbig : tt - low (f_buf s1) < asize (f_buf s1) * 2 ^ 64) by nia.
      rewrite try_put_unfold in Hstep. fold tt in Hstep.
      match type of Hstep with context [put_tail ?b ?h ?i ?x] =>
        pose proof (put_tail_spec b (f_parked s1) h i x HR Hge Hnp Hbig) as Hspec;
        destruct (put_tail b h i x) as [[b' info'] parked] eqn:Ep end.
      destruct Hspec as (_ & Hlow' & _ & Hiff & _ & _).
      destruct parked; injection Hstep as <-; cbn [f_buf f_parked f_arrived] in *; rewrite Hlow'.
      * destruct Hin as [<-|Hin]; [right; right; left; auto|].
        destruct (IH _ Hin) as [?|[?|?]]; auto. right; right; right; auto.
      * assert (tt = low (f_buf s1)) by (apply Hiff; auto).
        destruct Hin as [<-|Hin]; [right; left; auto|]. apply IH; auto.
    + destruct (f_running s1) eqn:Er; [|discriminate].
      pose proof (rep_done (f_buf s1) (f_parked s1) HR) as Hd.
      destruct (note_done (f_buf s1)) as [b' w] eqn:En.
      destruct Hd as (Hw & HR' & Hlow' & Hsz').
      destruct w as [i|]; injection Hstep as <-; cbn [f_buf f_parked f_arrived] in *; rewrite Hlow'.
      * destruct (IH _ Hin) as [?|[?|Hp]]; [left; lia|left; lia|].
        destruct (Z.eq_dec t (low (f_buf s1) + 1)) as [->|Hne]; [right; left; auto|].
        right; right. unfold tokens_of in *. apply in_map_iff in Hp. destruct Hp as ([a c] & <- & Hp).
        apply in_map_iff. exists (a, c). split; auto. apply drop_in. split; auto.
      * destruct (IH _ Hin) as [?|[?|Hp]]; [left; lia|left; lia|].
        destruct (Z.eq_dec t (low (f_buf s1) + 1)) as [->|Hne]; [right; left; auto|right; right; auto].
Qed.

(* ---------- token accounting ---------- *)
Definition TInv (M : Z) (s : tok) : Prop :=
  0 <= tk_t s /\ 0 <= tk_a s /\ 0 <= tk_n s /\ tk_n s + tk_t s = M /\ tk_a s <= tk_t s /\ tk_a s <= 1.

(* environment discipline: an input task exists when it reads / ends; an item exists when it finishes *)
Definition tok_enabled (s : tok) (o : tkop) : bool :=
  match o with InputRead | InputEnd => 1 <=? tk_a s | ItemDone => 1 <=? tk_n s end.

Lemma tok_step_inv M s o : TInv M s -> tok_enabled s o = true -> TInv M (tok_step s o).
Proof.
  intros (Ht & Ha & Hn & Hsum & Hat & Ha1) He. unfold TInv.
  destruct o; cbn [tok_step tok_enabled tk_t tk_a tk_n tk_eoi] in *.
  - destruct (1 <? tk_t s) eqn:E; repeat split; auto; lia.
  - repeat split; auto; lia.
  - destruct ((tk_t s =? 0) && negb (tk_eoi s)) eqn:E; repeat split; auto; lia.
Qed.

Definition tok_run (ops : list tkop) (s0 : tok) : option tok :=
  fold_left (fun st o => match st with
                         | Some x => if tok_enabled x o then Some (tok_step x o) else None
                         | None => None end) ops (Some s0).

Lemma tok_run_none ops : fold_left (fun st o => match st with
                         | Some x => if tok_enabled x o then Some (tok_step x o) else None
                         | None => None end) ops None = None.
Proof. induction ops; cbn; auto. Qed.

Lemma tok_run_inv M ops : forall s0 s, TInv M s0 -> tok_run ops s0 = Some s -> TInv M s.
Proof.
  unfold tok_run. induction ops as [|o tl IH]; intros s0 s Hi H; cbn [fold_left] in H.
  - inv H. auto.
  - destruct (tok_enabled s0 o) eqn:E.
    + eapply IH; [|exact H]. apply tok_step_inv; auto.
    + rewrite tok_run_none in H. discriminate.
Qed.

Lemma pipe_token_bound_proof : forall M ops,
  1 <= M ->
  forall s, fold_left (fun st o => match st with
                                   | Some x => if tok_enabled x o then Some (tok_step x o) else None
                                   | None => None end) ops (Some (mktok M 1 0 false)) = Some s ->
  0 <= tk_n s <= M /\ tk_n s + tk_t s = M.
Proof.
  intros M ops HM s H.
  assert (Hi : TInv M (mktok M 1 0 false)) by (unfold TInv; cbn [tk_t tk_a tk_n]; lia).
  destruct (tok_run_inv M ops _ _ Hi H) as (Ht & Ha & Hn & Hsum & _). lia.
Qed.
