(* C02: executable model of the wait / notify protocol of r1::concurrent_monitor_base (src/tbb/concurrent_monitor.h):
   prepare_wait, the predicate check, commit_wait, cancel_wait with the "skipped wake-up" pumped by the next
   prepare_wait, and notify_all issued after the condition was made true.
   Threads 0..W-1 are waiters (each runs concurrent_monitor::wait(pred, node) once), threads W.. are notifiers (each
   sets the condition, then calls notify_all).  One step = one call / one lock-protected block; a step that would
   block (semaphore P with no pending V) is a stutter step. *)
From OTV Require Import Lib.Tac Lib.Conc.
Local Open Scope Z_scope.

Record mg := mkmg { m_epoch : Z; m_wset : list nat; m_cond : bool; m_sems : list Z }.   (* m_sems[w] = pending V's of waiter w *)

Inductive mpc :=
| WStart | WCheck | WCommit | WSleep | WCancelDone | WDone      (* waiter *)
| NSet | NCheckEmpty | NLock | NDone.                                          (* notifier *)
Record ml := mkml { m_pc : mpc; m_wepoch : Z; m_skipped : bool }.

Definition sem_of (g : mg) (w : nat) : Z := nth w (m_sems g) 0.
Definition set_sem (g : mg) (w : nat) (v : Z) : mg := mkmg (m_epoch g) (m_wset g) (m_cond g) (set_nth (m_sems g) w v).
Definition in_wset (g : mg) (w : nat) : bool := existsb (Nat.eqb w) (m_wset g).
Definition remove_w (g : mg) (w : nat) : mg :=
  mkmg (m_epoch g) (filter (fun x => negb (Nat.eqb w x)) (m_wset g)) (m_cond g) (m_sems g).

(* notify_all's lock-protected block together with the V's that follow it *)
Fixpoint bump_from (ws : list nat) (i : nat) (sems : list Z) : list Z :=
  match sems with
  | [] => []
  | s :: tl => (if existsb (Nat.eqb i) ws then s + 1 else s) :: bump_from ws (S i) tl
  end.
Definition bump_all (g : mg) : mg := mkmg (m_epoch g + 1) [] (m_cond g) (bump_from (m_wset g) 0 (m_sems g)).

(* cancel_wait *)
Definition do_cancel (w : nat) (g : mg) (l : ml) (next : mpc) : mg * ml :=
  if in_wset g w then (remove_w g w, mkml next (m_wepoch l) false)
  else (g, mkml next (m_wepoch l) true).

(* events: tid, code, value (for the correspondence check): 1 prepared | 2 pred result | 3 committed(1)/cancelled(0) | 4 woke |
   5 blocked (stutter) | 6 cancelled | 7 cond set | 8 waitset empty(1)/not(0) | 9 notified count *)
Definition mev (tid : nat) (code v : Z) : list Z := [Z.of_nat tid; code; v].

Definition mstep (tid : nat) (g : mg) (l : ml) : option (mg * ml * list Z) :=
  match m_pc l with
  | WStart =>      (* prepare_wait: pump a skipped wake-up (node.reset() -> P(), blocks until the late V arrives), then enqueue *)
      if m_skipped l && negb (1 <=? sem_of g tid) then Some (g, l, mev tid 5 0)
      else
        let g1 := if m_skipped l then set_sem g tid (sem_of g tid - 1) else g in
        Some (mkmg (m_epoch g1) (m_wset g1 ++ [tid]) (m_cond g1) (m_sems g1), mkml WCheck (m_epoch g1) false,
              mev tid 1 (if m_skipped l then 1 else 0))
  | WCheck => if m_cond g then Some (g, mkml WCancelDone (m_wepoch l) (m_skipped l), mev tid 2 1)
              else Some (g, mkml WCommit (m_wepoch l) (m_skipped l), mev tid 2 0)
  | WCommit =>     (* commit_wait: sleep if the epoch is unchanged, otherwise cancel_wait and go round the loop *)
      if m_wepoch l =? m_epoch g then Some (g, mkml WSleep (m_wepoch l) (m_skipped l), mev tid 3 1)
      else let '(g', l') := do_cancel tid g l WStart in Some (g', l', mev tid 3 0 ++ mev tid 6 (if m_skipped l' then 1 else 0))
  | WSleep => if 1 <=? sem_of g tid then Some (set_sem g tid (sem_of g tid - 1), mkml WDone (m_wepoch l) (m_skipped l), mev tid 4 1)
              else Some (g, l, mev tid 5 1)
  | WCancelDone => let '(g', l') := do_cancel tid g l WDone in Some (g', l', mev tid 6 (if m_skipped l' then 1 else 0))
  | WDone => None
  | NSet => Some (mkmg (m_epoch g) (m_wset g) true (m_sems g), mkml NCheckEmpty 0 false, mev tid 7 1)
  | NCheckEmpty => match m_wset g with
                   | [] => Some (g, mkml NDone 0 false, mev tid 8 1)
                   | _ => Some (g, mkml NLock 0 false, mev tid 8 0)
                   end
  | NLock => Some (bump_all g, mkml NDone 0 false, mev tid 9 (Z.of_nat (length (m_wset g))))
  | NDone => None
  end.

Definition minit (nw nn : nat) : mg * list ml :=
  (mkmg 0 [] false (repeat 0 nw), repeat (mkml WStart 0 false) nw ++ repeat (mkml NSet 0 false) nn).

(* flat interface: nwaiters nnotifiers schedule...; output: events, then per waiter 1/0 = done, then epoch *)
Definition run_mon (inp : list Z) : list Z :=
  match inp with
  | nw :: nn :: sched =>
      let '(c, evs) := run mstep (minit (Z.to_nat nw) (Z.to_nat nn)) (map Z.to_nat sched) in
      evs ++ [-7] ++ map (fun l => match m_pc l with WDone => 1 | NDone => 1 | _ => 0 end) (snd c) ++ [m_epoch (fst c)]
  | _ => []
  end.
