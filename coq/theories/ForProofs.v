From OTV Require Import Lib.Tac Params ForModel.
Local Open Scope Z_scope.

(* leaves are contiguous, in order, from a to b *)
Fixpoint tiles (a : Z) (ls : list rng) (b : Z) : Prop :=
  match ls with
  | [] => a = b
  | r :: tl => rb r = a /\ tiles (re r) tl b
  end.

Lemma tiles_app a m b l1 l2 : tiles a l1 m -> tiles m l2 b -> tiles a (l1 ++ l2) b.
Proof.
  revert a; induction l1 as [|r l1 IH]; intros a H1 H2; cbn in *.
  - subst. auto.
  - destruct H1 as [H1 H1']. split; auto.
Qed.

Definition ceil_half (g : Z) : Z := (g + 1) / 2.

(* size bounds of a leaf: within [lo, g]; non-empty; carries the grain size *)
Definition leaf_ok (lo g : Z) (r : rng) : Prop := lo <= rsize r <= g /\ 1 <= rsize r /\ rg r = g.

Lemma simple_leaves_spec fuel : forall r,
  1 <= rg r -> 1 <= rsize r -> rsize r <= 2 ^ Z.of_nat fuel ->
  exists ls, simple_leaves fuel r = Some ls /\ tiles (rb r) ls (re r) /\
    (rg r < rsize r -> Forall (leaf_ok (ceil_half (rg r)) (rg r)) ls) /\
    (rsize r <= rg r -> ls = [r]) /\
    Forall (fun x => 1 <= rsize x /\ rsize x <= Z.max (rg r) 1 /\ rg x = rg r) ls.
Proof.
  induction fuel as [|f IH]; intros r Hg Hs Hf.
  - cbn [simple_leaves]. change (2 ^ Z.of_nat 0) with 1 in Hf.
    unfold divisible. destruct (rg r <? rsize r) eqn:E; [lia|].
    exists [r]. cbn. repeat split; auto; try lia. constructor; [|constructor]. lia.
  - cbn [simple_leaves]. unfold divisible. destruct (rg r <? rsize r) eqn:E.
    + unfold split_mid. set (m := rb r + rsize r / 2).
      assert (Hpow : 2 ^ Z.of_nat (S f) = 2 * 2 ^ Z.of_nat f).
      { rewrite Nat2Z.inj_succ. rewrite Z.pow_succ_r by lia. reflexivity. }
      assert (Hs2 : 2 <= rsize r) by lia.
      set (s := rsize r) in *.
      assert (Hh1 : 1 <= s / 2) by (apply Z.div_le_lower_bound; lia).
      assert (Hh2 : s / 2 <= s - s / 2) by lia.
      assert (Hh3 : s - s / 2 <= 2 ^ Z.of_nat f) by lia.
      assert (Hh4 : ceil_half (rg r) <= s / 2) by (unfold ceil_half; lia).
      assert (Hm1 : m - rb r = s / 2) by (unfold m; lia).
      assert (Hm2 : re r - m = s - s / 2) by (unfold m, s, rsize; lia).
      destruct (IH (mkrng (rb r) m (rg r))) as (la & Ea & Ta & Ba & Sa & Fa).
      { cbn [rg]. lia. } { unfold rsize; cbn [rb re]. lia. } { unfold rsize; cbn [rb re]. lia. }
      destruct (IH (mkrng m (re r) (rg r))) as (lb & Eb & Tb & Bb & Sb & Fb).
      { cbn [rg]. lia. } { unfold rsize; cbn [rb re]. lia. } { unfold rsize; cbn [rb re]. lia. }
      rewrite Ea, Eb. exists (la ++ lb). cbn [rb re rg] in *.
      split; [reflexivity|]. split; [eapply tiles_app; eauto|].
      assert (HA : Forall (leaf_ok (ceil_half (rg r)) (rg r)) la).
      { unfold rsize in Ba, Sa. cbn [rb re rg] in Ba, Sa.
        destruct (Z_lt_le_dec (rg r) (m - rb r)) as [Hlt|Hle]; [auto|].
        rewrite (Sa Hle). constructor; [|constructor]. unfold leaf_ok, rsize. cbn [rb re rg]. lia. }
      assert (HB : Forall (leaf_ok (ceil_half (rg r)) (rg r)) lb).
      { unfold rsize in Bb, Sb. cbn [rb re rg] in Bb, Sb.
        destruct (Z_lt_le_dec (rg r) (re r - m)) as [Hlt|Hle]; [auto|].
        rewrite (Sb Hle). constructor; [|constructor]. unfold leaf_ok, rsize. cbn [rb re rg]. lia. }
      split; [intros _; apply Forall_app; auto|]. split; [lia|].
      apply Forall_app; split; auto.
    + exists [r]. cbn. repeat split; auto; try lia. constructor; [|constructor]. lia.
Qed.

Lemma fuel_for_enough r : 1 <= rsize r -> rsize r <= 2 ^ Z.of_nat (fuel_for r).
Proof.
  intros Hs. unfold fuel_for. rewrite Z.max_r by lia.
  rewrite Nat2Z.inj_add, Z2Nat.id by apply Z.log2_up_nonneg.
  change (Z.of_nat 1) with 1. rewrite Z.pow_add_r by (try apply Z.log2_up_nonneg; lia).
  destruct (Z.eq_dec (rsize r) 1) as [->|Hne].
  - cbn. lia.
  - pose proof (Z.log2_up_spec (rsize r) ltac:(lia)) as [_ Hup].
    change (2 ^ 1) with 2. lia.
Qed.

Lemma simple_chunks_proof : forall b e g,
  b < e -> 1 <= g ->
  exists ls, simple_leaves (fuel_for (mkrng b e g)) (mkrng b e g) = Some ls /\
    tiles b ls e /\
    Forall (fun x => 1 <= rsize x) ls /\
    (e - b <= g -> ls = [mkrng b e g]) /\
    (g < e - b -> Forall (fun x => ceil_half g <= rsize x <= g) ls).
Proof.
  intros b e g Hbe Hg.
  assert (H1 : 1 <= rg (mkrng b e g)) by (cbn [rg]; lia).
  assert (H2 : 1 <= rsize (mkrng b e g)) by (unfold rsize; cbn [rb re]; lia).
  destruct (simple_leaves_spec (fuel_for (mkrng b e g)) (mkrng b e g) H1 H2 (fuel_for_enough _ H2)) as (ls & E & T & B & S & F).
  unfold rsize in B, S, F. cbn [rg rb re] in *.
  exists ls. repeat split; auto.
  - eapply Forall_impl; [|exact F]. cbn beta. unfold rsize. intros; lia.
  - intros H. specialize (B H). eapply Forall_impl; [|exact B]. unfold leaf_ok, rsize. intros; lia.
Qed.

(* strided parallel_for: the indices first + i*step, 0 <= i < trip, are exactly the members of the arithmetic progression that
   lie below last: all of them are in [first, last), the next one is not, and different i give different indices. *)
Lemma strided_exact first last step : 0 < step -> first < last ->
  0 < strided_trip first last step /\
  (forall i, 0 <= i < strided_trip first last step -> first <= strided_index first step i < last) /\
  last <= strided_index first step (strided_trip first last step) /\
  (forall i j, strided_index first step i = strided_index first step j -> i = j).
Proof.
  intros Hs Hl. unfold strided_trip, strided_index.
  set (q := (last - first - 1) / step).
  assert (Hq : step * q <= last - first - 1 < step * q + step).
  { unfold q. pose proof (Z.mul_div_le (last - first - 1) step Hs). pose proof (Z.mul_succ_div_gt (last - first - 1) step Hs). lia. }
  assert (0 <= q) by (unfold q; apply Z.div_pos; lia).
  split; [lia|]. split; [|split].
  - intros i Hi. split; [nia|]. assert (i <= q) by lia. nia.
  - nia.
  - intros i j H0. nia.
Qed.

(* every member of the progression below last is visited: x = first + k*step with x < last has k < trip *)
Lemma strided_complete first last step k : 0 < step -> first < last -> 0 <= k ->
  strided_index first step k < last -> k < strided_trip first last step.
Proof.
  intros Hs Hl Hk Hx. unfold strided_trip, strided_index in *.
  assert (k * step <= last - first - 1) by lia.
  assert (k <= (last - first - 1) / step) by (apply Z.div_le_lower_bound; lia). lia.
Qed.
