(* C04: exhaustive exploration (all interleavings, checked closed sets) of the repaired bind/propagate protocol. *)
From OTV Require Import Lib.Tac Lib.Conc Lib.Explore CtxModel.
Local Open Scope Z_scope.

Lemma cpc_dec (a b : pc) : {a = b} + {a <> b}.
Proof. decide equality; apply Z.eq_dec. Defined.
Lemma cloc_dec (a b : loc) : {a = b} + {a <> b}.
Proof. decide equality; try (apply list_eq_dec; apply Z.eq_dec); apply cpc_dec. Defined.
Lemma cshared_dec (a b : shared) : {a = b} + {a <> b}.
Proof. decide equality; try apply bool_dec; try apply Z.eq_dec; try (apply list_eq_dec; apply bool_dec); apply list_eq_dec; apply Z.eq_dec. Defined.
Lemma ccfg_dec (a b : shared * list loc) : {a = b} + {a <> b}.
Proof. decide equality; [apply list_eq_dec; apply cloc_dec | apply cshared_dec]. Defined.

Definition cfinished (l : loc) : bool := match l_pc l, l_todo l with CDone, [] => true | _, _ => false end.

(* at quiescence: every registered context beneath a context whose cancel call won is cancelled, and nothing else is;
   before quiescence: some thread can step (no deadlock on the two mutexes) *)
Definition ctx_good (same raise : bool) (infos : list ctxinfo) (c : shared * list loc) : bool :=
  if forallb cfinished (snd c)
  then let won := flat_map l_won (snd c) in reaches_ok infos (fst c) won && no_spurious_ok infos (fst c) won
  else negb (match succs (cstep same raise infos) c with [] => true | _ => false end).

Definition cinit (infos : list ctxinfo) (pre : list Z) (progs : list (list Z)) : shared * list loc :=
  (init_shared infos pre, map (fun p => mkL CDone p []) progs).

(* scenarios: (context tree with thread lists, pre-bound contexts, thread programs: 0 c = cancel(c), 1 c = bind(c)) *)
Definition S_witness := ([mkci (-1) 1; mkci 0 1; mkci 1 0], [0; 1], [[0; 0]; [1; 2]]).            (* the refutation witness' shape *)
Definition S_other_order := ([mkci (-1) 0; mkci 0 0; mkci 1 1], [0; 1], [[0; 0]; [1; 2]]).
Definition S_tree4 := ([mkci (-1) 0; mkci 0 1; mkci 1 0; mkci 1 2], [0; 1], [[0; 0]; [1; 2]; [1; 3]]).   (* two binders, one canceller *)
Definition S_two_cancels := ([mkci (-1) 0; mkci 0 1; mkci 1 0], [0; 1], [[0; 0]; [0; 1]; [1; 2]]).         (* cancels at two levels race with a bind *)
Definition S_root_child := ([mkci (-1) 0; mkci 0 1], [0], [[1; 1]; [0; 0]]).                                  (* a child of a parent-less context is bound while that context is cancelled *)
Definition S_root_two := ([mkci (-1) 0; mkci 0 1; mkci 0 0], [0], [[1; 1]; [0; 0]; [1; 2]]).                  (* two such binders and the canceller *)
Definition ctx_scenarios := [S_witness; S_other_order; S_tree4; S_two_cancels; S_root_child; S_root_two].

Definition s_infos (s : list ctxinfo * list Z * list (list Z)) := fst (fst s).
Definition s_init (s : list ctxinfo * list Z * list (list Z)) := cinit (fst (fst s)) (snd (fst s)) (snd s).
Definition scen_ok (s : list ctxinfo * list Z * list (list Z)) : bool :=
  explore_all (cstep true true (s_infos s)) ccfg_dec (ctx_good true true (s_infos s)) (s_init s) 60000.

(* evaluated once when this file is compiled (about two minutes) *)
Lemma explored_witness : explore_all (cstep true true (s_infos S_witness)) ccfg_dec (ctx_good true true (s_infos S_witness)) (s_init S_witness) 60000 = true.
Proof. vm_compute. reflexivity. Qed.
Lemma explored_other_order : explore_all (cstep true true (s_infos S_other_order)) ccfg_dec (ctx_good true true (s_infos S_other_order)) (s_init S_other_order) 60000 = true.
Proof. vm_compute. reflexivity. Qed.
Lemma explored_tree4 : explore_all (cstep true true (s_infos S_tree4)) ccfg_dec (ctx_good true true (s_infos S_tree4)) (s_init S_tree4) 60000 = true.
Proof. vm_compute. reflexivity. Qed.
Lemma explored_two_cancels : explore_all (cstep true true (s_infos S_two_cancels)) ccfg_dec (ctx_good true true (s_infos S_two_cancels)) (s_init S_two_cancels) 60000 = true.
Proof. vm_compute. reflexivity. Qed.

Lemma explored_root_child : explore_all (cstep true true (s_infos S_root_child)) ccfg_dec (ctx_good true true (s_infos S_root_child)) (s_init S_root_child) 60000 = true.
Proof. vm_compute. reflexivity. Qed.
Lemma explored_root_two : explore_all (cstep true true (s_infos S_root_two)) ccfg_dec (ctx_good true true (s_infos S_root_two)) (s_init S_root_two) 60000 = true.
Proof. vm_compute. reflexivity. Qed.

Lemma witness_all c : reach (cstep true true (s_infos S_witness)) (s_init S_witness) c -> ctx_good true true (s_infos S_witness) c = true.
Proof. apply (explore_all_sound (cstep true true (s_infos S_witness)) ccfg_dec (ctx_good true true (s_infos S_witness)) (s_init S_witness) 60000). exact explored_witness. Qed.
Lemma other_order_all c : reach (cstep true true (s_infos S_other_order)) (s_init S_other_order) c -> ctx_good true true (s_infos S_other_order) c = true.
Proof. apply (explore_all_sound (cstep true true (s_infos S_other_order)) ccfg_dec (ctx_good true true (s_infos S_other_order)) (s_init S_other_order) 60000). exact explored_other_order. Qed.
Lemma tree4_all c : reach (cstep true true (s_infos S_tree4)) (s_init S_tree4) c -> ctx_good true true (s_infos S_tree4) c = true.
Proof. apply (explore_all_sound (cstep true true (s_infos S_tree4)) ccfg_dec (ctx_good true true (s_infos S_tree4)) (s_init S_tree4) 60000). exact explored_tree4. Qed.
Lemma two_cancels_all c : reach (cstep true true (s_infos S_two_cancels)) (s_init S_two_cancels) c -> ctx_good true true (s_infos S_two_cancels) c = true.
Proof. apply (explore_all_sound (cstep true true (s_infos S_two_cancels)) ccfg_dec (ctx_good true true (s_infos S_two_cancels)) (s_init S_two_cancels) 60000). exact explored_two_cancels. Qed.

Lemma root_child_all c : reach (cstep true true (s_infos S_root_child)) (s_init S_root_child) c -> ctx_good true true (s_infos S_root_child) c = true.
Proof. apply (explore_all_sound (cstep true true (s_infos S_root_child)) ccfg_dec (ctx_good true true (s_infos S_root_child)) (s_init S_root_child) 60000). exact explored_root_child. Qed.
Lemma root_two_all c : reach (cstep true true (s_infos S_root_two)) (s_init S_root_two) c -> ctx_good true true (s_infos S_root_two) c = true.
Proof. apply (explore_all_sound (cstep true true (s_infos S_root_two)) ccfg_dec (ctx_good true true (s_infos S_root_two)) (s_init S_root_two) 60000). exact explored_root_two. Qed.

Theorem ctx_all_interleavings s c :
  In s ctx_scenarios -> reach (cstep true true (s_infos s)) (s_init s) c -> ctx_good true true (s_infos s) c = true.
Proof.
  intros Hin. destruct Hin as [<-|[<-|[<-|[<-|[<-|[<-|[]]]]]]]; [apply witness_all | apply other_order_all | apply tree4_all | apply two_cancels_all | apply root_child_all | apply root_two_all].
Qed.

(* the protocol as found (binder and propagator lock different mutexes) fails the same exhaustive check on the witness scenario *)
Lemma two_mutexes_fail_exploration :
  explore_all (cstep false false (s_infos S_witness)) ccfg_dec (ctx_good false false (s_infos S_witness)) (s_init S_witness) 60000 = false.
Proof. vm_compute. reflexivity. Qed.

(* the unconditional copy in the parent-less branch (as found) fails the exhaustive check although the two mutexes are already unified *)
Lemma root_copy_fails_exploration :
  explore_all (cstep true false (s_infos S_root_child)) ccfg_dec (ctx_good true false (s_infos S_root_child)) (s_init S_root_child) 60000 = false.
Proof. vm_compute. reflexivity. Qed.
