(* C19 — collaborative_call_once.  Property theorems only; proofs live in OnceProofs.v. *)
From OTV Require Import Lib.Tac Lib.Conc OnceModel OnceProofs.
Local Open Scope Z_scope.

(* Finite statements closed by exhaustive evaluation inside Coq (all 4096 / 4096 / 6561 interleaving prefixes, each completed
   round-robin): exactly one successful execution of the function, every caller returns (the caller whose attempt threw gets
   the exception and a later/concurrent caller retries), the flag ends `done`, and no helper ever touches a runner that has
   already been destroyed.  Bounded results about these configurations — the unbounded invariant (OInv in OnceProofs.v) is
   stated but not yet proved (DESIGN.md, C19 partial). *)
Theorem call_once_small_configurations :
  explore_once [[false]; [false]] 12 = true /\
  explore_once [[true; false]; [false]] 12 = true /\
  explore_once [[true; false]; [false]; [false]] 8 = true.
Proof. exact once_small_configs. Qed.
Print Assumptions call_once_small_configurations.
