(* C19 — collaborative_call_once.  Property theorems only; proofs live in OnceProofs.v. *)
From OTV Require Import Lib.Tac Lib.Conc OnceModel OnceProofs.
Local Open Scope Z_scope.

(* Finite statements closed by exhaustive evaluation inside Coq (all 4096 / 4096 / 6561 interleaving prefixes, each completed
   round-robin): exactly one successful execution of the function, every caller returns (the caller whose attempt threw gets
   the exception and a later/concurrent caller retries), the flag ends `done`, and no helper ever touches a runner that has
   already been destroyed.  Bounded results about these configurations — the unbounded invariant (OInv in OnceProofs.v) is
   stated but not yet proved (DESIGN.md, C19 partial). *)
Theorem call_once_small_configurations :
  explore_once [[false]; [false]] 12 = true /\
  explore_once [[true; false]; [false]] 12 = true /\
  explore_once [[true; false]; [false]; [false]] 8 = true.
Proof. exact once_small_configs. Qed.
Print Assumptions call_once_small_configurations.

(* EXHAUSTIVE over all interleavings (a checked closed set of configurations, Lib/Explore.v — not a bound on schedule length) for
   five configurations: two callers; a throwing first attempt with a retrying second caller; both callers' attempts throw;
   three callers (two helpers in the reference window at once); three callers with a throwing first attempt.
   In every reachable configuration: no access to a destroyed runner; at most one successful execution; a caller that returned
   normally did so after the successful execution and with the flag `done`; no stuck state (whenever somebody has not returned,
   some thread can step); when everybody has returned: exactly one success and `done` — or, if every caller's own attempt threw,
   no success and the flag back in the not-called state. *)
From OTV Require Import Lib.Explore OnceExplore.
Theorem call_once_all_interleavings : forall throws c,
  In throws once_configs -> reach ostep (oinit throws) c -> once_good c = true.
Proof. exact once_all_interleavings. Qed.
Print Assumptions call_once_all_interleavings.
