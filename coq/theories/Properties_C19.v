(* C19 — collaborative_call_once.  Property theorems only; proofs live in OnceProofs.v. *)
From OTV Require Import Lib.Tac Lib.Conc OnceModel OnceProofs.
Local Open Scope Z_scope.

(* Finite statements closed by exhaustive evaluation inside Coq (all 4096 / 4096 / 6561 interleaving prefixes, each completed
   round-robin): exactly one successful execution of the function, every caller returns (the caller whose attempt threw gets
   the exception and a later/concurrent caller retries), the flag ends `done`, and no helper ever touches a runner that has
   already been destroyed.  Bounded results about these configurations; the unbounded theorems are at the end of this file. *)
Theorem call_once_small_configurations :
  explore_once [[false]; [false]] 12 = true /\
  explore_once [[true; false]; [false]] 12 = true /\
  explore_once [[true; false]; [false]; [false]] 8 = true.
Proof. exact once_small_configs. Qed.
Print Assumptions call_once_small_configurations.

(* EXHAUSTIVE over all interleavings (a checked closed set of configurations, Lib/Explore.v — not a bound on schedule length) for
   five configurations: two callers; a throwing first attempt with a retrying second caller; both callers' attempts throw;
   three callers (two helpers in the reference window at once); three callers with a throwing first attempt.
   In every reachable configuration: no access to a destroyed runner; at most one successful execution; a caller that returned
   normally did so after the successful execution and with the flag `done`; no stuck state (whenever somebody has not returned,
   some thread can step); when everybody has returned: exactly one success and `done` — or, if every caller's own attempt threw,
   no success and the flag back in the not-called state. *)
From OTV Require Import Lib.Explore OnceExplore.
Theorem call_once_all_interleavings : forall throws c,
  In throws once_configs -> reach ostep (oinit throws) c -> once_good c = true.
Proof. exact once_all_interleavings. Qed.
Print Assumptions call_once_all_interleavings.

(* UNBOUNDED: any number of callers, any pattern of throwing attempts (each caller carries its own list), any interleaving
   (inductive invariant J of OnceInv.v, proved preserved by every atomic step of every thread).
   o_bad_access counts accesses to a runner object after its destruction; o_success counts successful completions of the function. *)
From OTV Require Import OnceInv.
Theorem call_once_safety : forall throws c, reach ostep (oinit throws) c ->
  o_bad_access (fst c) = 0 /\ 0 <= o_success (fst c) <= 1 /\
  (forall i l, nth_error (snd c) i = Some l -> ol_pc l = ORetOk -> o_success (fst c) = 1 /\ o_word (fst c) = Done).
Proof. exact once_safety_proof. Qed.
Print Assumptions call_once_safety.

(* no reachable configuration is stuck: whenever no thread can take a step, every caller has returned (so the spin-waits of
   set_completion_state, ~runner, the reference window and assist() always have somebody who can release them) *)
Theorem call_once_never_stuck : forall throws c, reach ostep (oinit throws) c ->
  (forall i, step_at ostep c i = None) -> forall i l, nth_error (snd c) i = Some l -> OnceInv.returned l = true.
Proof. exact once_no_deadlock_proof. Qed.
Print Assumptions call_once_never_stuck.

(* when every caller has returned: exactly one successful execution and the flag is done — or every attempt threw, every caller
   got its own exception and the flag is back in the not-called state *)
Theorem call_once_outcome : forall throws c, reach ostep (oinit throws) c ->
  (forall i l, nth_error (snd c) i = Some l -> OnceInv.returned l = true) ->
  (o_word (fst c) = Done /\ o_success (fst c) = 1) \/
  (o_word (fst c) = Uninit /\ o_success (fst c) = 0 /\ forall i l, nth_error (snd c) i = Some l -> ol_pc l = ORetExc).
Proof. exact once_final_proof. Qed.
Print Assumptions call_once_outcome.

Theorem once_run_is_reachable : forall throws sched c evs, run ostep (oinit throws) sched = (c, evs) -> reach ostep (oinit throws) c.
Proof. intros throws sched c evs H. exact (run_reach ostep sched _ _ _ H). Qed.
Print Assumptions once_run_is_reachable.

(* ---- the thread-id table of enumerable_thread_specific / combinable (EtsModel, EtsProofs) ----
   For any number of threads, any number of accesses per thread and any interleaving of the deciding accesses
   (fetch_add on my_count, loads and CAS on my_root, claims of slots): *)
From OTV Require Import EtsModel EtsProofs.
(* no array of the table is ever filled above one half, so every probe of table_lookup meets an empty slot and ends *)
Theorem ets_arrays_at_most_half_full : forall acc c k a, reach estep (einit_ets acc) c ->
  nth_error (e_arrs (fst c)) k = Some a -> (2 * length (a_keys a) <= 2 ^ a_lg a)%nat.
Proof. exact ets_density_proof. Qed.
Print Assumptions ets_arrays_at_most_half_full.

(* a thread is given at most one element (create_local runs at most once per thread) ... *)
Theorem ets_one_element_per_thread : forall acc c t, reach estep (einit_ets acc) c -> (getn (e_created (fst c)) t <= 1)%nat.
Proof. exact ets_one_element_proof. Qed.
Print Assumptions ets_one_element_per_thread.

(* ... because once it has one, its key is found again by every later lookup, however the table has grown meanwhile *)
Theorem ets_key_is_found_again : forall acc c t l, reach estep (einit_ets acc) c ->
  nth_error (snd c) t = Some l -> el_pc l = ELookup -> getn (e_created (fst c)) t = 1%nat -> find_top (e_arrs (fst c)) t 0 <> None.
Proof. exact ets_key_stays_proof. Qed.
Print Assumptions ets_key_is_found_again.

(* nobody ever waits for anybody: every unfinished thread can take its next step *)
Theorem ets_lookup_never_blocks : forall acc c t l, reach estep (einit_ets acc) c ->
  nth_error (snd c) t = Some l -> el_pc l <> EDone -> step_at estep c t <> None.
Proof. exact ets_never_blocked_proof. Qed.
Print Assumptions ets_lookup_never_blocks.

Example ets_example : run_etsseq [3; 0; 1; 2; 0; 1]%Z = [3; 2; 2; 2; 3; 3; -7; 1; 1; 1]%Z.
Proof. vm_compute. reflexivity. Qed.
