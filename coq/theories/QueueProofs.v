From OTV Require Import Lib.Tac Params QueueModel.
Local Open Scope Z_scope.

Lemma q_consts : (q_n_queue, q_phi) = (8, 3). Proof. reflexivity. Qed.

(* two tickets share a lane iff they are congruent modulo n_queue: n_queue consecutive tickets use n_queue distinct lanes *)
Lemma lane_bijection_proof k1 k2 : 0 <= k1 -> 0 <= k2 -> (lane k1 = lane k2 <-> k1 mod q_n_queue = k2 mod q_n_queue).
Proof. unfold lane. change q_phi with 3. change q_n_queue with 8. intros. lia. Qed.

Lemma lane_range k : 0 <= lane k < q_n_queue.
Proof. unfold lane. change q_n_queue with 8. apply Z.mod_pos_bound. lia. Qed.

(* within a lane, lane tickets of successive tickets grow by exactly n_queue: the per-lane turn counter works *)
Lemma lane_ticket_step_proof k1 k2 :
  0 <= k1 < k2 -> lane k1 = lane k2 ->
  lane_ticket k1 + q_n_queue <= lane_ticket k2 /\ (lane_ticket k2 - lane_ticket k1) mod q_n_queue = 0.
Proof.
  intros H Hl. apply (proj1 (lane_bijection_proof k1 k2 ltac:(lia) ltac:(lia))) in Hl. unfold lane_ticket. change q_n_queue with 8 in *.
  pose proof (Z.div_mod k1 8 ltac:(lia)) as E1. pose proof (Z.div_mod k2 8 ltac:(lia)) as E2.
  pose proof (Z.mod_pos_bound k1 8 ltac:(lia)). pose proof (Z.mod_pos_bound k2 8 ltac:(lia)).
  set (r1 := k1 mod 8) in *. set (r2 := k2 mod 8) in *. set (d1 := k1 / 8) in *. set (d2 := k2 / 8) in *.
  clearbody r1 r2 d1 d2. split; [lia|].
  replace (k2 - r2 - (k1 - r1)) with ((d2 - d1) * 8) by lia. apply Z_mod_mult.
Qed.

(* ---------- ticket machine without abort ---------- *)
Lemma assoc_in {A} (l : list (Z * A)) k a : assoc l k = Some a -> In (k, a) l.
Proof.
  unfold assoc. induction l as [|[k' a'] l IH]; cbn [find fst]; [discriminate|].
  destruct (k' =? k) eqn:E; [intros H; inv H; left; f_equal; lia|intros H; right; auto].
Qed.
Lemma assoc_none {A} (l : list (Z * A)) k : assoc l k = None -> ~ In k (map fst l).
Proof.
  unfold assoc. induction l as [|[k' a'] l IH]; cbn [find fst map]; [intros _ []|].
  destruct (k' =? k) eqn:E; [discriminate|]. intros H [Hx|Hx]; [cbn in Hx; lia|]. apply IH; auto.
Qed.
Lemma rem_in {A} (l : list (Z * A)) k x : In x (rem l k) <-> In x l /\ fst x <> k.
Proof. unfold rem. rewrite filter_In. split; intros [H1 H2]; split; auto; lia. Qed.
Lemma nodup_map_rem {A B} (f : Z * A -> B) (l : list (Z * A)) k : NoDup (map f l) -> NoDup (map f (rem l k)).
Proof.
  unfold rem. induction l as [|x l IH]; cbn; intros H; [constructor|]. inv H.
  destruct (negb (fst x =? k)); cbn; auto. constructor; auto.
  intros Hi. apply H2. apply in_map_iff in Hi. destruct Hi as (y & <- & Hy). apply filter_In in Hy. apply in_map_iff. exists y. tauto.
Qed.

Lemma setc_length {A} (l : list A) i v : length (setc l i v) = length l.
Proof. revert i; induction l as [|x l IH]; intros [|i]; cbn; auto. Qed.
Lemma nth_error_setc_eq {A} (l : list A) i v : (i < length l)%nat -> nth_error (setc l i v) i = Some v.
Proof. revert i; induction l as [|x l IH]; intros [|i] H; cbn in *; try lia; auto. apply IH. lia. Qed.
Lemma nth_error_setc_neq {A} (l : list A) i j v : i <> j -> nth_error (setc l i v) j = nth_error l j.
Proof. revert i j; induction l as [|x l IH]; intros [|i] [|j] H; cbn; auto; try congruence. Qed.

Lemma nodup_snd_unique (l : list (Z * Z)) t1 t2 k : NoDup (map snd l) -> In (t1, k) l -> In (t2, k) l -> t1 = t2.
Proof.
  induction l as [|[a b] l IH]; intros Hnd H1 H2; [inv H1|]. cbn [map snd] in Hnd. inv Hnd.
  destruct H1 as [H1|H1]; destruct H2 as [H2|H2].
  - inv H1. inv H2. auto.
  - inv H1. exfalso. apply H3. change k with (snd (t2, k)). apply in_map. auto.
  - inv H2. exfalso. apply H3. change k with (snd (t1, k)). apply in_map. auto.
  - auto.
Qed.

Definition values (s : qstate) : list Z := map fst (q_cells s).

(* the value stored under a ticket never changes, and the ticket order is the order of the PushTake steps *)
Lemma setc_values cells i st :
  (i < length cells)%nat -> map fst (setc cells i (fst (nth i cells (0, Published)), st)) = map fst cells.
Proof.
  revert i; induction cells as [|[v c] l IH]; intros [|i] H; cbn in *; try lia; auto. f_equal. apply IH. lia.
Qed.

Lemma find_inflight_spec cells th : forall i0 i,
  find_inflight cells th i0 = Some i -> (i0 <= i < i0 + length cells)%nat /\ exists v, nth_error cells (i - i0) = Some (v, InFlight th).
Proof.
  induction cells as [|[v c] l IH]; intros i0 i H; cbn [find_inflight] in H; [discriminate|].
  destruct c as [t| |t].
  - destruct (t =? th) eqn:E.
    + inv H. split; [cbn; lia|]. exists v. rewrite Nat.sub_diag. cbn. f_equal. f_equal. f_equal. lia.
    + apply IH in H. destruct H as (Hr & v' & Hn). split; [cbn; lia|]. exists v'.
      replace (i - i0)%nat with (S (i - S i0)) by lia. exact Hn.
  - apply IH in H. destruct H as (Hr & v' & Hn). split; [cbn; lia|]. exists v'.
    replace (i - i0)%nat with (S (i - S i0)) by lia. exact Hn.
  - apply IH in H. destruct H as (Hr & v' & Hn). split; [cbn; lia|]. exists v'.
    replace (i - i0)%nat with (S (i - S i0)) by lia. exact Hn.
Qed.

(* prefix relation on the value history *)
Definition extends (l1 l2 : list Z) : Prop := exists tl, l2 = l1 ++ tl.
Lemma extends_refl l : extends l l. Proof. exists []. rewrite app_nil_r. auto. Qed.
Lemma extends_trans a b c : extends a b -> extends b c -> extends a c.
Proof. intros [x ->] [y ->]. exists (x ++ y). rewrite app_assoc. auto. Qed.

Definition QInv (s : qstate) : Prop :=
  0 <= q_head s /\
  (* pop tickets in flight are pairwise distinct, below head, and none of them is already consumed *)
  NoDup (map snd (q_poppers s)) /\ NoDup (map fst (q_poppers s)) /\
  (forall th k, In (th, k) (q_poppers s) -> 0 <= k < q_head s /\
      forall v t, nth_error (q_cells s) (Z.to_nat k) <> Some (v, Consumed t)) /\
  (* consumed items: the cell is marked consumed, and carries the value pushed under that ticket *)
  (forall th k v, In (th, k, v) (q_out s) -> 0 <= k < q_head s /\ nth_error (q_cells s) (Z.to_nat k) = Some (v, Consumed th)) /\
  NoDup (map (fun o => snd (fst o)) (q_out s)) /\
  (* every consumed cell is in the output *)
  (forall k v t, nth_error (q_cells s) k = Some (v, Consumed t) -> In (t, Z.of_nat k, v) (q_out s)).

Lemma qstep_inv s o s' : QInv s -> qstep false s o = Some s' -> QInv s' /\ extends (values s) (values s').
Proof.
  intros (Hh & Hnd & Hndt & Hpop & Hout & Hond & Hcons) H. unfold qstep in H.
  destruct o as [th v|th|th|th|th]; [| | | |discriminate].
  - destruct (find_inflight (q_cells s) th 0); [discriminate|]. inv H. split.
    + unfold QInv. cbn [q_head q_cells q_poppers q_out]. repeat split; auto.
      * apply (Hpop _ _ H). * apply (Hpop _ _ H).
      * intros v0 t Hn. destruct (Hpop _ _ H) as (Hr & Hc). apply (Hc v0 t).
        destruct (Nat.lt_ge_cases (Z.to_nat k) (length (q_cells s))) as [Hlt|Hge].
        -- rewrite nth_error_app1 in Hn by auto. exact Hn.
        -- rewrite nth_error_app2 in Hn by auto. destruct (Z.to_nat k - length (q_cells s))%nat as [|n]; cbn in Hn; [inv Hn|destruct n; discriminate].
      * apply (Hout _ _ _ H). * apply (Hout _ _ _ H).
      * destruct (Hout _ _ _ H) as (_ & Hn). rewrite nth_error_app1; [exact Hn|]. apply nth_error_Some. congruence.
      * intros k v0 t Hn. apply Hcons.
        destruct (Nat.lt_ge_cases k (length (q_cells s))) as [Hlt|Hge].
        -- rewrite nth_error_app1 in Hn by auto. exact Hn.
        -- rewrite nth_error_app2 in Hn by auto. destruct (k - length (q_cells s))%nat as [|n]; cbn in Hn; [inv Hn|destruct n; discriminate].
    + unfold values. cbn [q_cells]. rewrite map_app. eexists; eauto.
  - destruct (find_inflight (q_cells s) th 0) as [i|] eqn:Ef; [|discriminate]. inv H.
    apply find_inflight_spec in Ef. destruct Ef as (Hr & v & Hn). rewrite Nat.sub_0_r in Hn. cbn in Hr.
    assert (Hnth : nth i (q_cells s) (0, Published) = (v, InFlight th)) by (apply nth_error_nth; auto).
    rewrite Hnth. cbn [fst]. split.
    + unfold QInv. cbn [q_head q_cells q_poppers q_out]. repeat split; auto.
      * apply (Hpop _ _ H). * apply (Hpop _ _ H).
      * intros v0 t Hn0. destruct (Hpop _ _ H) as (_ & Hc). apply (Hc v0 t).
        destruct (Nat.eq_dec i (Z.to_nat k)) as [Heq|Hne].
        -- rewrite <- Heq in Hn0. rewrite nth_error_setc_eq in Hn0 by lia. inv Hn0.
        -- rewrite nth_error_setc_neq in Hn0 by auto. exact Hn0.
      * apply (Hout _ _ _ H). * apply (Hout _ _ _ H).
      * destruct (Hout _ _ _ H) as (_ & Hn0). rewrite nth_error_setc_neq; auto. intros Heq. rewrite <- Heq in Hn0. congruence.
      * intros k v0 t Hn0. apply Hcons.
        destruct (Nat.eq_dec i k) as [Heq|Hne].
        -- rewrite <- Heq in Hn0. rewrite nth_error_setc_eq in Hn0 by lia. inv Hn0.
        -- rewrite nth_error_setc_neq in Hn0 by auto. exact Hn0.
    + unfold values. cbn [q_cells]. 
      replace (v, Published) with (fst (nth i (q_cells s) (0, Published)), Published) by (rewrite Hnth; reflexivity).
      rewrite setc_values by lia. apply extends_refl.
  - destruct (assoc (q_poppers s) th) eqn:Ea; [discriminate|]. inv H. apply assoc_none in Ea. split; [|apply extends_refl].
    unfold QInv. cbn [q_head q_cells q_poppers q_out map snd fst]. repeat split; auto; try lia.
    + constructor; auto. intros Hi. apply in_map_iff in Hi. destruct Hi as ([t k] & Hk & Hi). cbn in Hk. subst k.
      destruct (Hpop _ _ Hi). lia.
    + constructor; auto.
    + destruct H as [H|H]; [inv H; lia|]. destruct (Hpop _ _ H). lia.
    + destruct H as [H|H]; [inv H; lia|]. destruct (Hpop _ _ H). lia.
    + destruct H as [H|H].
      * inv H. intros v t Hn. apply Hcons in Hn. rewrite Z2Nat.id in Hn by lia. destruct (Hout _ _ _ Hn). lia.
      * apply (Hpop _ _ H).
    + destruct (Hout _ _ _ H). lia.
    + destruct (Hout _ _ _ H). lia.
    + apply (Hout _ _ _ H).
  - destruct (assoc (q_poppers s) th) as [k|] eqn:Ea; [|discriminate]. apply assoc_in in Ea.
    destruct (0 <=? k) eqn:Ek; [|discriminate].
    destruct (nth_error (q_cells s) (Z.to_nat k)) as [[v [t| |t]]|] eqn:En; try discriminate. inv H.
    destruct (Hpop _ _ Ea) as (Hkr & Hnc).
    assert (Hlen : (Z.to_nat k < length (q_cells s))%nat) by (apply nth_error_Some; congruence).
    split.
    + unfold QInv. cbn [q_head q_cells q_poppers q_out map snd fst]. repeat split; auto.
      * apply nodup_map_rem. auto. * apply nodup_map_rem. auto.
      * apply rem_in in H. destruct H as (H & _). apply (Hpop _ _ H).
      * apply rem_in in H. destruct H as (H & _). apply (Hpop _ _ H).
      * apply rem_in in H. destruct H as (H & Hne). cbn [fst] in Hne.
        intros v0 t Hn. destruct (Hpop _ _ H) as (_ & Hc).
        destruct (Nat.eq_dec (Z.to_nat k) (Z.to_nat k0)) as [Heq|Hneq].
        -- (* same ticket as the consumer: impossible, pop tickets are distinct *)
           assert (k = k0) by (destruct (Hpop _ _ H); lia). subst k0.
           exfalso. apply Hne. symmetry. eapply nodup_snd_unique; eauto.
        -- rewrite nth_error_setc_neq in Hn by auto. apply (Hc v0 t). exact Hn.
      * destruct H as [H|H]; [inv H; lia|]. destruct (Hout _ _ _ H). lia.
      * destruct H as [H|H]; [inv H; lia|]. destruct (Hout _ _ _ H). lia.
      * destruct H as [H|H].
        -- inv H. apply nth_error_setc_eq. auto.
        -- destruct (Hout _ _ _ H) as (Hr & Hn). rewrite nth_error_setc_neq; auto. intros Heq. 
           assert (k = k0) by lia. subst k0. rewrite En in Hn. discriminate.
      * constructor; auto. intros Hi. apply in_map_iff in Hi. destruct Hi as ([[t0 k0] v0] & Hk & Hi). cbn in Hk. subst k0.
        destruct (Hout _ _ _ Hi) as (_ & Hn). rewrite En in Hn. discriminate.
      * intros k0 v0 t Hn. destruct (Nat.eq_dec (Z.to_nat k) k0) as [Heq|Hne].
        -- rewrite <- Heq in Hn |- *. rewrite nth_error_setc_eq in Hn by auto. inv Hn. left. rewrite Z2Nat.id by lia. reflexivity.
        -- rewrite nth_error_setc_neq in Hn by auto. right. apply Hcons. exact Hn.
    + unfold values. cbn [q_cells].
      assert (Hnth : nth (Z.to_nat k) (q_cells s) (0, Published) = (v, Published)) by (apply nth_error_nth; auto).
      replace (v, Consumed th) with (fst (nth (Z.to_nat k) (q_cells s) (0, Published)), Consumed th) by (rewrite Hnth; reflexivity).
      rewrite setc_values by auto. apply extends_refl.
Qed.

Lemma qinit_inv : QInv qinit.
Proof.
  unfold QInv, qinit. cbn. repeat split; try lia; try constructor; try (intros; contradiction).
  all: try (intros k v t H; destruct k; discriminate).
Qed.

Lemma qrun_inv ops : forall s s', QInv s -> qrun false s ops = Some s' -> QInv s' /\ extends (values s) (values s').
Proof.
  induction ops as [|o tl IH]; intros s s' Hi H; cbn [qrun] in H.
  - inv H. split; auto. apply extends_refl.
  - destruct (qstep false s o) as [s1|] eqn:E; [|discriminate].
    destruct (qstep_inv _ _ _ Hi E) as (Hi1 & He1). destruct (IH _ _ Hi1 H) as (Hi2 & He2).
    split; auto. eapply extends_trans; eauto.
Qed.

(* the pop holding ticket k receives exactly the value of the k-th ticket handed out by tail_counter *)
Lemma fifo_by_ticket_proof ops s th k v :
  qrun false qinit ops = Some s -> In (th, k, v) (q_out s) -> 0 <= k /\ nth_error (values s) (Z.to_nat k) = Some v.
Proof.
  intros H Hin. destruct (qrun_inv ops _ _ qinit_inv H) as ((_ & _ & _ & _ & Hout & _) & _).
  destruct (Hout _ _ _ Hin) as (Hr & Hn). split; [lia|]. unfold values. rewrite nth_error_map, Hn. reflexivity.
Qed.

Lemma at_most_once_proof ops s :
  qrun false qinit ops = Some s -> NoDup (map (fun o => snd (fst o)) (q_out s)) /\ NoDup (map snd (q_poppers s)).
Proof. intros H. destruct (qrun_inv ops _ _ qinit_inv H) as ((_ & Hn & _ & _ & _ & Ho & _) & _). auto. Qed.

(* a value, once its ticket is taken, keeps its place in the order for ever (later steps only extend the history) *)
Lemma history_stable_proof ops1 ops2 s1 s2 :
  qrun false qinit ops1 = Some s1 -> qrun false s1 ops2 = Some s2 -> extends (values s1) (values s2).
Proof.
  intros H1 H2. destruct (qrun_inv ops1 _ _ qinit_inv H1) as (Hi & _). destruct (qrun_inv ops2 _ _ Hi H2) as (_ & He). exact He.
Qed.

(* with the bounded queue's abort path (head_counter--) the ticket discipline breaks: two live pops hold the same ticket *)
Lemma abort_breaks_ticket_uniqueness_proof :
  exists ops s, qrun true qinit ops = Some s /\ ~ NoDup (map snd (q_poppers s)).
Proof.
  exists [PopTake 1; PopTake 2; PopAbort 1; PopTake 3]. eexists. split; [vm_compute; reflexivity|].
  cbn. intros H. inv H. apply H2. left. reflexivity.
Qed.

(* ... and an item is lost behind it: after push(1), push(2) the pop that arrived first among the two live ones gets the
   SECOND item while the first item's slot is held by nobody (ticket 0 was given back) *)
Lemma abort_loses_item_proof :
  exists s, qrun true qinit [PopTake 1; PopTake 2; PopAbort 1; PushTake 7 100; PushPublish 7; PushTake 7 200; PushPublish 7; PopConsume 2] = Some s /\
    q_out s = [(2, 1, 200)] /\ nth_error (q_cells s) 0 = Some (100, Published) /\ ~ In 0 (map snd (q_poppers s)).
Proof. eexists. split; [vm_compute; reflexivity|]. cbn. repeat split; auto. Qed.
