(* C15: join_node with the RESERVING policy fed by FIFO senders (queue_node) — include/oneapi/tbb/detail/_flow_graph_join_impl.h:
   reserving_port :267-455, join_helper::reserve / release_reservations / consume_reservations :58-110, join_node_FE<reserving> :860-935,
   join_node_base::handle_operations :1296-1390.
   A reserving port rejects every pushed message, so a sender that offers one registers itself as the port's predecessor (pull mode);
   ports_with_no_inputs counts the ports without a predecessor.  When it is 0 the forward task tries to reserve the front item of every
   port, from the LAST port down to the first; the first port whose sender has nothing is dropped from the predecessor cache (the edge
   goes back to push mode, the counter is incremented) and everything reserved so far is released; if all ports could be reserved the
   tuple is offered: taken -> every reservation is consumed (the loop goes on), refused -> every reservation is released and the edge to
   the successor is reversed.  Between two operations no reservation is pending (each operation runs to completion under the node's aggregator). *)
From OTV Require Import Lib.Tac JoinModel.
Local Open Scope Z_scope.

Record rj := mkrj {
  r_qs : list (list Z);        (* per port: the sender's buffer, oldest first *)
  r_pull : list bool;          (* per port: the sender is registered in the port's predecessor cache *)
  r_pwni : Z;                  (* ports_with_no_inputs *)
  r_fwd : Z; r_busy : bool; r_push : bool; r_acc : bool;
  r_out : list (list Z);
  r_puts : list (list Z) }.

Fixpoint setb (l : list bool) (i : nat) (v : bool) : list bool :=
  match l, i with [], _ => [] | _ :: tl, O => v :: tl | x :: tl, S k => x :: setb tl k v end.
Definition getb' (l : list bool) (i : nat) : bool := nth i l false.

(* the highest port whose sender is empty *)
Fixpoint highest_empty (qs : list (list Z)) (pos : nat) : option nat :=
  match qs with
  | [] => None
  | q :: tl => match highest_empty tl (S pos) with Some p => Some p | None => if isnil q then Some pos else None end
  end.

(* try_to_make_tuple with ports_with_no_inputs = 0: either every port is reserved (Some tuple; the state is unchanged: the caller consumes or
   releases) or the highest empty port loses its predecessor *)
Definition try_tuple (n : rj) : rj * option (list Z) :=
  match highest_empty (r_qs n) O with
  | None => (n, Some (map (hd 0) (r_qs n)))
  | Some p => (mkrj (r_qs n) (setb (r_pull n) p false) (r_pwni n + 1) (r_fwd n) (r_busy n) (r_push n) (r_acc n) (r_out n) (r_puts n), None)
  end.
Definition consume (n : rj) (t : list Z) : rj :=
  mkrj (map (@tl Z) (r_qs n)) (r_pull n) (r_pwni n) (r_fwd n) (r_busy n) (r_push n) (r_acc n) (r_out n ++ [t]) (r_puts n).

Fixpoint rfwd_loop (fuel : nat) (n : rj) : rj :=
  match fuel with
  | O => n
  | S f =>
      if r_pwni n =? 0 then
        match try_tuple n with
        | (n1, None) => n1
        | (n1, Some t) =>
            if r_push n1 && r_acc n1 then rfwd_loop f (consume n1 t)
            else mkrj (r_qs n1) (r_pull n1) (r_pwni n1) (r_fwd n1) (r_busy n1) false (r_acc n1) (r_out n1) (r_puts n1)
        end
      else n
  end.
Definition rtotal_len (n : rj) : nat := fold_right (fun q a => (length q + a)%nat) O (r_qs n).

(* ops: 1 p v = put v into the sender of port p | 2 / 3 = the successor accepts / refuses from now on | 4 = the successor pulls (only while it is not registered) |
        6 = the successor registers again | 7 = run one forward task *)
Definition rjstep (n : rj) (op a v : Z) : rj * Z :=
  if op =? 1 then
    let i := Z.to_nat a in
    if (i <? length (r_qs n))%nat then
      let qs' := setq (r_qs n) i (getq (r_qs n) i ++ [v]) in
      let puts' := setq (r_puts n) i (getq (r_puts n) i ++ [v]) in
      if getb' (r_pull n) i then (mkrj qs' (r_pull n) (r_pwni n) (r_fwd n) (r_busy n) (r_push n) (r_acc n) (r_out n) puts', 1)
      else
        let pw := r_pwni n - 1 in
        (mkrj qs' (setb (r_pull n) i true) pw (if pw =? 0 then r_fwd n + 1 else r_fwd n) (r_busy n) (r_push n) (r_acc n) (r_out n) puts', 1)
    else (n, 0)
  else if op =? 2 then (mkrj (r_qs n) (r_pull n) (r_pwni n) (r_fwd n) (r_busy n) (r_push n) true (r_out n) (r_puts n), 1)
  else if op =? 3 then (mkrj (r_qs n) (r_pull n) (r_pwni n) (r_fwd n) (r_busy n) (r_push n) false (r_out n) (r_puts n), 1)
  else if op =? 4 then
    if negb (r_push n) && (r_pwni n =? 0) then
      match try_tuple n with
      | (n1, Some t) => (consume n1 t, 1)
      | (n1, None) => (n1, 0)
      end
    else (n, 0)
  else if op =? 6 then
    if (r_pwni n =? 0) && negb (r_busy n)
    then (mkrj (r_qs n) (r_pull n) (r_pwni n) (r_fwd n + 1) true true (r_acc n) (r_out n) (r_puts n), 1)
    else (mkrj (r_qs n) (r_pull n) (r_pwni n) (r_fwd n) (r_busy n) true (r_acc n) (r_out n) (r_puts n), 1)
  else if op =? 7 then
    if 0 <? r_fwd n then
      let n1 := rfwd_loop (S (rtotal_len n)) n in
      (mkrj (r_qs n1) (r_pull n1) (r_pwni n1) (r_fwd n1 - 1) false (r_push n1) (r_acc n1) (r_out n1) (r_puts n1), 1)
    else (n, 0)
  else (n, 0).

Definition rjinit (nports : nat) : rj :=
  mkrj (repeat [] nports) (repeat false nports) (Z.of_nat nports) 0 false true true [] (repeat [] nports).
Fixpoint rjsettle (fuel : nat) (n : rj) : rj :=
  match fuel with
  | O => n
  | S f => if 0 <? r_fwd n then rjsettle f (fst (rjstep n 7 0 0)) else n
  end.

(* flat interface: nports (op a v)*  ->  per op: result, ports_with_no_inputs, forwarder_busy, successor registered?, tuples delivered, then per port:
   sender's buffer size, sender registered as predecessor?;  then -7 and the tuples, then -8 and the number of reservations seen pending after an operation (always 0 here) *)
Fixpoint rjtrace (n : rj) (ops : list Z) : rj * list Z :=
  match ops with
  | op :: a :: v :: tl =>
      let '(n1, r) := rjstep n op a v in
      let n2 := rjsettle 64 n1 in
      let '(n3, rs) := rjtrace n2 tl in
      (n3, r :: r_pwni n2 :: (if r_busy n2 then 1 else 0) :: (if r_push n2 then 1 else 0) :: Z.of_nat (length (r_out n2))
           :: flat_map (fun qb : list Z * bool => [Z.of_nat (length (fst qb)); if snd qb then 1 else 0]) (combine (r_qs n2) (r_pull n2)) ++ rs)
  | _ => (n, [])
  end.
Definition run_joinr (inp : list Z) : list Z :=
  match inp with
  | np :: tl => let '(n, rs) := rjtrace (rjinit (Z.to_nat np)) tl in rs ++ [-7] ++ concat (r_out n) ++ [-8; 0]
  | [] => []
  end.
