(* C19 (second half): the thread-id table of enumerable_thread_specific / combinable
   (include/oneapi/tbb/enumerable_thread_specific.h:102-290, ets_base::table_lookup).
   The table is a chain of open-addressed arrays, newest (largest) first; a thread that does not find its key creates its element,
   takes a number c = ++my_count, makes sure the root array has at least 2c slots (publishing a bigger one with a CAS on my_root if
   not) and claims a slot of the root for its key; a thread that finds its key in an older array inserts it into the root again.
   Granularity: one step = the access that decides (the last load of my_root of a phase, the fetch_add, a CAS on my_root, the
   successful claim of a slot).  Arrays are identified by their position in creation order (the chain only grows at its head);
   an array is abstracted to its size and the set of keys it holds — that every probe ends is exactly the density theorem. *)
From OTV Require Import Lib.Tac Lib.Conc.
Local Open Scope nat_scope.

Record arr := mkarr { a_lg : nat; a_keys : list nat }.
Record eshared := mkE {
  e_count : nat;                 (* my_count *)
  e_arrs : list arr;             (* arrays in creation order: the LAST one is my_root, each one's next is its predecessor *)
  e_cnum : list nat;             (* per thread: the number it drew from my_count (0 = none yet) *)
  e_created : list nat }.        (* per thread: calls of create_local *)

Inductive epc :=
| ELookup                        (* search the chain from the root for the own key *)
| EInc                           (* not found: element created; c = ++my_count *)
| ERead                          (* r = my_root; is it large enough for c? *)
| ECas (s seen : nat)            (* publish an array of 2^s slots if my_root is still the seen one (seen = number of arrays then) *)
| EInsRead (lo : nat)            (* ir = my_root  (the key is in no array of position >= lo) *)
| EClaim (k lo : nat)            (* claim an empty slot of array k *)
| EDone.
Record eloc := mkEL { el_pc : epc; el_more : nat }.     (* el_more: further accesses after this one *)

(* least s >= s0 with c <= 2^(s-1)  (while( c > 1<<(s-1) ) ++s) *)
Fixpoint grow (fuel s c : nat) : nat :=
  match fuel with
  | O => s
  | S f => if c <=? 2 ^ (s - 1) then s else grow f (S s) c
  end.

Definition getn (l : list nat) (i : nat) : nat := nth i l 0.
Fixpoint setn' (l : list nat) (i v : nat) : list nat :=
  match l, i with [], _ => [] | _ :: tl, O => v :: tl | x :: tl, S j => x :: setn' tl j v end.
Fixpoint add_key (l : list arr) (k t : nat) : list arr :=
  match l, k with
  | [], _ => []
  | a :: tl, O => mkarr (a_lg a) (t :: a_keys a) :: tl
  | a :: tl, S j => a :: add_key tl j t
  end.
Definition has_key (t : nat) (a : arr) : bool := existsb (Nat.eqb t) (a_keys a).
(* highest position whose array holds the key *)
Fixpoint find_top (l : list arr) (t : nat) (pos : nat) : option nat :=
  match l with
  | [] => None
  | a :: tl => match find_top tl t (S pos) with Some p => Some p | None => if has_key t a then Some pos else None end
  end.
Definition root_lg (l : list arr) : option nat := match l with [] => None | _ => Some (a_lg (last l (mkarr 0 []))) end.

Definition finish_access (l : eloc) : eloc :=
  match el_more l with O => mkEL EDone 0 | S m => mkEL ELookup m end.

Definition estep (tid : nat) (g : eshared) (l : eloc) : option (eshared * eloc * list Z) :=
  let goto p := mkEL p (el_more l) in
  match el_pc l with
  | ELookup =>
      match find_top (e_arrs g) tid 0 with
      | Some d => if Nat.eqb (S d) (length (e_arrs g)) then Some (g, finish_access l, [])          (* found at the top level *)
                  else Some (g, goto (EInsRead (S d)), [])                                          (* found below: insert at the top again *)
      | None => Some (mkE (e_count g) (e_arrs g) (e_cnum g) (setn' (e_created g) tid (getn (e_created g) tid + 1)), goto EInc, [])
      end
  | EInc => Some (mkE (e_count g + 1) (e_arrs g) (setn' (e_cnum g) tid (e_count g + 1)) (e_created g), goto ERead, [])
  | ERead =>
      let c := getn (e_cnum g) tid in
      match root_lg (e_arrs g) with
      | None => Some (g, goto (ECas (grow c 2 c) 0), [])
      | Some lg => if 2 ^ lg / 2 <? c then Some (g, goto (ECas (grow c lg c) (length (e_arrs g))), [])
                   else Some (g, goto (EInsRead 0), [])
      end
  | ECas s seen =>
      if Nat.eqb (length (e_arrs g)) seen
      then Some (mkE (e_count g) (e_arrs g ++ [mkarr s []]) (e_cnum g) (e_created g), goto (EInsRead 0), [])
      else match root_lg (e_arrs g) with
           | Some lg => if s <=? lg then Some (g, goto (EInsRead 0), [])          (* somebody published an equal or bigger array *)
                        else Some (g, goto (ECas s (length (e_arrs g))), [])
           | None => None
           end
  | EInsRead lo =>
      match e_arrs g with
      | [] => None
      | _ => Some (g, goto (EClaim (length (e_arrs g) - 1) lo), [])
      end
  | EClaim k lo => Some (mkE (e_count g) (add_key (e_arrs g) k tid) (e_cnum g) (e_created g), finish_access l, [])
  | EDone => None
  end.

Definition einit_ets (accesses : list nat) : eshared * list eloc :=
  let n := length accesses in
  (mkE 0 [] (repeat 0 n) (repeat 0 n), map (fun m => mkEL ELookup m) accesses).

(* flat interface: n, accesses per thread (further accesses after the first), -1, schedule ->
   [quiescent?; my_count; number of arrays; per array: lg, number of keys; -7; created per thread] *)
Definition run_ets (inp : list Z) : list Z :=
  match inp with
  | n :: tl =>
      let acc := map Z.to_nat (firstn (Z.to_nat n) tl) in
      let sched := map Z.to_nat (match skipn (Z.to_nat n) tl with _ :: s => s | [] => [] end) in
      let '(c1, _) := run estep (einit_ets acc) sched in
      let '(c2, _, ok) := finish estep 2000 c1 4000 in
      ([if ok then 1 else 0; Z.of_nat (e_count (fst c2)); Z.of_nat (length (e_arrs (fst c2)))]
       ++ flat_map (fun a => [Z.of_nat (a_lg a); Z.of_nat (length (a_keys a))]) (e_arrs (fst c2))
       ++ [-7] ++ map Z.of_nat (e_created (fst c2)))%Z
  | [] => []
  end.

(* sequential use: one whole access of thread t (its steps up to the next access boundary) *)
Fixpoint access_rest (fuel : nat) (c : eshared * list eloc) (t : nat) : eshared * list eloc :=
  match fuel with
  | O => c
  | S f => match nth_error (snd c) t with
           | Some l => match el_pc l with
                       | ELookup | EDone => c
                       | _ => match step_at estep c t with Some (c', _) => access_rest f c' t | None => c end
                       end
           | None => c
           end
  end.
Definition access_full (c : eshared * list eloc) (t : nat) : eshared * list eloc :=
  match step_at estep c t with Some (c', _) => access_rest 10 c' t | None => c end.

(* flat interface: n, then thread ids (one access each, in this order) ->
   my_count, number of arrays, per array in creation order (lg, keys), -7, elements created per thread *)
Definition run_etsseq (inp : list Z) : list Z :=
  match inp with
  | n :: tl =>
      let c := fold_left access_full (map Z.to_nat tl) (einit_ets (repeat 1000 (Z.to_nat n))) in
      ([Z.of_nat (e_count (fst c)); Z.of_nat (length (e_arrs (fst c)))]
       ++ flat_map (fun a => [Z.of_nat (a_lg a); Z.of_nat (length (a_keys a))]) (e_arrs (fst c))
       ++ [-7] ++ map Z.of_nat (e_created (fst c)))%Z
  | [] => []
  end.
