(* C14: proofs about the function_input_base model. *)
From OTV Require Import Lib.Tac FnModel.
Local Open Scope Z_scope.

Definition FInv (n : fnode) : Prop :=
  0 <= f_conc n <= f_max n /\
  f_started n ++ f_queue n = f_accepted n /\
  (f_queue n <> [] -> f_conc n = f_max n) /\
  (f_queueing n = false -> f_queue n = []).

Lemma fn_step_same n op v :
  f_max (fst (fn_step n op v)) = f_max n /\ f_queueing (fst (fn_step n op v)) = f_queueing n.
Proof.
  unfold fn_step, perform_queued.
  destruct (op =? 1); [destruct (f_conc n <? f_max n); [cbn; auto|destruct (f_queueing n) eqn:E; cbn; auto]|].
  destruct (op =? 2).
  - destruct (0 <? f_conc n); [|cbn; auto]. cbn [f_conc f_max f_queue].
    destruct (f_conc n - 1 <? f_max n); [|cbn; auto]. destruct (f_queue n); cbn; auto.
  - destruct (op =? 3); [|cbn; auto]. destruct (f_conc n <? f_max n); [|cbn; auto]. destruct (f_queue n); cbn; auto.
Qed.

Lemma fn_step_inv n op v : 0 <= f_max n -> FInv n -> FInv (fst (fn_step n op v)) /\
  f_max (fst (fn_step n op v)) = f_max n /\ f_queueing (fst (fn_step n op v)) = f_queueing n.
Proof.
  intros Hm HI. split; [|apply fn_step_same]. assert (HI' := HI). destruct HI' as (Hc & Ha & Hq & Hr).
  unfold fn_step.
  destruct (op =? 1).
  - destruct (f_conc n <? f_max n) eqn:E.
    + assert (Eq : f_queue n = []).
      { destruct (f_queue n) eqn:Eq; [reflexivity|]. exfalso. assert (f_conc n = f_max n) by (apply Hq; congruence). lia. }
      rewrite Eq, app_nil_r in Ha. unfold FInv; cbn. split; [lia|]. split; [rewrite Eq, app_nil_r; congruence|]. split; [rewrite Eq; congruence|auto].
    + destruct (f_queueing n) eqn:Eqg; cbn [fst]; [|exact HI].
      unfold FInv; cbn. split; [lia|]. split; [rewrite app_assoc, Ha; reflexivity|]. split; [intros _; lia|congruence].
  - destruct (op =? 2).
    + destruct (0 <? f_conc n) eqn:E0; [|exact HI].
      cbn [f_conc f_max]. destruct (f_conc n - 1 <? f_max n) eqn:E1; [|lia].
      unfold perform_queued. cbn [f_queue]. destruct (f_queue n) as [|x tl] eqn:Eq; cbn [fst].
      * unfold FInv; cbn. split; [lia|]. split; [exact Ha|]. split; [congruence|auto].
      * assert (f_conc n = f_max n) by (apply Hq; congruence).
        unfold FInv; cbn. split; [lia|]. split; [rewrite <- app_assoc; exact Ha|]. split; [intros _; lia|].
        intros Hn. specialize (Hr Hn). discriminate.
    + destruct (op =? 3); [|exact HI].
      destruct (f_conc n <? f_max n) eqn:E1; [|exact HI].
      unfold perform_queued. destruct (f_queue n) as [|x tl] eqn:Eq; cbn [fst]; [exact HI|].
      exfalso. assert (f_conc n = f_max n) by (apply Hq; congruence). lia.
Qed.

Lemma fn_run_inv ops : forall n, 0 <= f_max n -> FInv n -> FInv (fst (fn_run n ops)) /\ f_max (fst (fn_run n ops)) = f_max n.
Proof.
  induction ops as [|[op v] tl IH]; intros n Hm HI; cbn [fn_run]; [auto|].
  destruct (fn_step_inv n op v Hm HI) as (H1 & H2 & H3).
  destruct (fn_step n op v) as [n1 r]. cbn [fst] in *.
  destruct (IH n1 ltac:(lia) H1) as (A & B). rewrite H2 in B. destruct (fn_run n1 tl) as [n2 rs]. cbn [fst] in *. split; auto.
Qed.
