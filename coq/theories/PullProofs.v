(* C14: invariant of the push/pull edge protocol between a buffering sender and a limited rejecting function_node. *)
From OTV Require Import Lib.Tac PullModel.
Local Open Scope Z_scope.

Definition PInv (n : pn) : Prop :=
  1 <= p_max n /\ 0 <= p_conc n <= p_max n /\
  p_busy n = p_fwd n /\
  (p_items n <> [] -> p_rej n = true \/ p_pull n = true) /\
  (p_pull n = true -> 0 < p_conc n \/ p_fwd n = true) /\
  (p_rej n = true -> p_pull n = false /\ p_items n <> []) /\
  p_started n ++ p_items n = p_put n.

Ltac fin Hr := repeat split; auto; try lia; try congruence;
  try (let H := fresh in intros H; destruct (Hr H); congruence);
  try (rewrite <- app_assoc; cbn; auto; congruence); try (rewrite app_assoc; congruence);
  try (match goal with H : p_rej _ = true |- _ => destruct (Hr H); solve [auto | congruence] end).

Lemma pstep_inv n op v : PInv n -> PInv (pstep n op v).
Proof.
  intros HI. assert (HI' := HI). destruct HI' as (Hm & Hc & Hb & Hi & Hp & Hr & Hs). unfold pstep.
  destruct (op =? 1).
  - destruct (p_pull n) eqn:Ep; cbn [orb].
    + unfold PInv; cbn. rewrite ?Ep. fin Hr.
      all: try (intros Hrj; destruct (Hr Hrj) as [_ X]; split; [congruence|]; destruct (p_items n); cbn; congruence).
    + destruct (p_rej n) eqn:Erj.
      * unfold PInv; cbn. rewrite ?Ep, ?Erj. fin Hr.
        all: try (intros _; split; auto; destruct (p_items n); cbn; congruence).
        all: try (destruct (p_items n); cbn; congruence).
      * assert (E0 : p_items n = []).
        { destruct (p_items n) eqn:E; auto. destruct Hi as [X|X]; congruence. }
        cbn [p_items]. rewrite E0. cbn [app]. rewrite E0 in Hs. rewrite app_nil_r in Hs.
        destruct (Z.ltb_spec (p_conc n) (p_max n)); unfold PInv; cbn; rewrite ?app_nil_r; fin Hr.
  - destruct (op =? 2).
    + destruct (Z.ltb_spec 0 (p_conc n)); [|exact HI].
      cbn [p_conc p_max]. destruct (Z.ltb_spec (p_conc n - 1) (p_max n)); [|lia].
      unfold pull. cbn [p_pull p_items p_max p_conc p_rej p_busy p_fwd p_started p_put].
      destruct (p_pull n) eqn:Ep.
      * destruct (p_items n) as [|x tl] eqn:Ei; unfold PInv; cbn; fin Hr.
      * unfold PInv; cbn. rewrite ?Ep. fin Hr.
    + destruct (op =? 3).
      * destruct (p_fwd n) eqn:Ef; [|exact HI].
        destruct (Z.ltb_spec (p_conc n) (p_max n)) as [Hlt|Hge].
        -- unfold pull. destruct (p_pull n) eqn:Ep.
           ++ destruct (p_items n) as [|x tl] eqn:Ei.
              ** cbn [p_started]. rewrite Z.ltb_irrefl. unfold PInv; cbn. fin Hr.
              ** cbn [p_started]. rewrite app_length. cbn [length].
                 destruct (Z.ltb_spec (Z.of_nat (length (p_started n))) (Z.of_nat (length (p_started n) + 1))); [|lia].
                 unfold PInv; cbn. fin Hr.
           ++ rewrite Z.ltb_irrefl. unfold PInv; cbn. rewrite ?Ep. fin Hr.
        -- rewrite Z.ltb_irrefl. unfold PInv; cbn. fin Hr.
      * destruct (op =? 5); [|exact HI].
        destruct (p_rej n) eqn:Erj; [|exact HI]. destruct (Hr eq_refl) as [R1 R2].
        destruct (p_busy n) eqn:Eb; unfold PInv; cbn; fin Hr.
Qed.

Lemma pinit_inv maxc : 1 <= maxc -> PInv (pinit maxc).
Proof. intros H. unfold PInv, pinit; cbn. repeat split; auto; try lia; try congruence. Qed.

Lemma prun_inv ops : forall n, PInv n -> PInv (prun n ops).
Proof. induction ops as [|[op v] tl IH]; intros n H; cbn; auto. apply IH. apply pstep_inv. auto. Qed.

Lemma pstep_max n op v : p_max (pstep n op v) = p_max n.
Proof.
  unfold pstep, pull.
  repeat match goal with |- context [if ?b then _ else _] => destruct b end; cbn; auto;
  repeat match goal with |- context [match ?x with _ => _ end] => destruct x end; cbn; auto.
Qed.
