(* C13: executable model of concurrent_priority_queue's serial core
   (include/oneapi/tbb/concurrent_priority_queue.h:254-390: handle_operations, heapify, reheap)
   with Compare = std::less<int>; the batch is the op_list handed to handle_operations by the
   aggregator.  Arrays are lists, indices are nat, loops carry explicit fuel (= array length). *)
From OTV Require Import Lib.Tac.
Local Open Scope Z_scope.

Definition get (d : list Z) (i : nat) : Z := nth i d 0.
Fixpoint upd (d : list Z) (i : nat) (v : Z) : list Z :=
  match d, i with
  | [], _ => []
  | _ :: tl, O => v :: tl
  | x :: tl, S j => x :: upd tl j v
  end.
Definition back (d : list Z) : Z := last d 0.
Definition cmp (a b : Z) : bool := a <? b.    (* my_compare = std::less *)

(* heapify(): inner do-while pushes to_place up from cur_pos (cur_pos >= 1 on entry) *)
Fixpoint sift_up (fuel : nat) (d : list Z) (cur : nat) (to_place : Z) : list Z :=
  match fuel with
  | O => upd d cur to_place
  | S f =>
      let parent := Nat.div (cur - 1) 2 in
      if negb (cmp (get d parent) to_place) then upd d cur to_place
      else let d' := upd d cur (get d parent) in
           if Nat.eqb parent 0 then upd d' parent to_place
           else sift_up f d' parent to_place
  end.

Fixpoint heapify_loop (n : nat) (d : list Z) (mark : nat) : list Z * nat :=
  match n with
  | O => (d, mark)
  | S n' => if Nat.ltb mark (length d)
            then heapify_loop n' (sift_up (length d) d mark (get d mark)) (S mark)
            else (d, mark)
  end.

Definition heapify (d : list Z) (mark : nat) : list Z * nat :=
  let mark := if andb (Nat.eqb mark 0) (Nat.ltb 0 (length d)) then 1%nat else mark in
  heapify_loop (length d) d mark.

(* reheap(): push the last element down from the root, within the heap part [0,mark) *)
Fixpoint reheap_loop (fuel : nat) (d : list Z) (mark cur child : nat) : list Z * nat :=
  match fuel with
  | O => (d, cur)
  | S f =>
      if Nat.ltb child mark then
        let target := if andb (Nat.ltb (child + 1) mark) (cmp (get d child) (get d (child + 1)))
                      then (child + 1)%nat else child in
        if cmp (get d target) (back d) then (d, cur)
        else reheap_loop f (upd d cur (get d target)) mark target (2 * target + 1)
      else (d, cur)
  end.

Definition reheap (d : list Z) (mark : nat) : list Z * nat :=
  let '(d1, cur) := reheap_loop (length d) d mark 0 1 in
  let d2 := if Nat.eqb cur (length d1 - 1) then d1 else upd d1 cur (back d1) in
  let d3 := removelast d2 in
  (d3, if Nat.ltb (length d3) mark then length d3 else mark).

Inductive op := Push (v : Z) | Pop.
Inductive res := RPush | RPop (v : Z) | RFail.

Record cpq := mk { data : list Z; mark : nat }.

(* the condition shared by both passes: there are newly pushed elements and the last one beats the top *)
Definition back_beats_top (q : cpq) : bool :=
  andb (Nat.ltb (mark q) (length (data q))) (cmp (get (data q) 0) (back (data q))).

(* first pass: returns the state, the results of the ops answered in this pass (tagged with their
   position in the batch) and the postponed pops (LIFO: the code pushes them on pop_list) *)
Fixpoint pass1 (q : cpq) (ops : list (nat * op)) (postponed : list nat) (done : list (nat * res))
  : cpq * list nat * list (nat * res) :=
  match ops with
  | [] => (q, postponed, done)
  | (i, Push v) :: tl => pass1 (mk (data q ++ [v]) (mark q)) tl postponed ((i, RPush) :: done)
  | (i, Pop) :: tl =>
      if back_beats_top q
      then pass1 (mk (removelast (data q)) (mark q)) tl postponed ((i, RPop (back (data q))) :: done)
      else pass1 q tl (i :: postponed) done
  end.

Fixpoint pass2 (q : cpq) (pops : list nat) (done : list (nat * res)) : cpq * list (nat * res) :=
  match pops with
  | [] => (q, done)
  | i :: tl =>
      match data q with
      | [] => pass2 q tl ((i, RFail) :: done)
      | _ =>
        if back_beats_top q
        then pass2 (mk (removelast (data q)) (mark q)) tl ((i, RPop (back (data q))) :: done)
        else let '(d', m') := reheap (data q) (mark q) in
             pass2 (mk d' m') tl ((i, RPop (get (data q) 0)) :: done)
      end
  end.

Fixpoint number {A} (n : nat) (l : list A) : list (nat * A) :=
  match l with [] => [] | x :: tl => (n, x) :: number (S n) tl end.

Definition handle_operations (q : cpq) (batch : list op) : cpq * list (nat * res) :=
  let '(q1, postponed, done1) := pass1 q (number 0 batch) [] [] in
  let '(q2, done2) := pass2 q1 postponed done1 in
  let '(d3, m3) := if Nat.ltb (mark q2) (length (data q2)) then heapify (data q2) (mark q2)
                   else (data q2, mark q2) in
  (mk d3 m3, done2).

Definition res_at (rs : list (nat * res)) (i : nat) : res :=
  match find (fun p => Nat.eqb (fst p) i) rs with Some (_, r) => r | None => RFail end.

(* ---- flat interface for the correspondence check ----
   input: batches; op encoding  1 v = push v | 2 0 = pop | 9 9 = end of batch.
   output per batch: per op (status,value) in batch order, then size, mark, data...  then -7 *)
Fixpoint split_batches (l : list Z) (cur : list op) : list (list op) :=
  match l with
  | 1 :: v :: tl => split_batches tl (cur ++ [Push v])
  | 2 :: _ :: tl => split_batches tl (cur ++ [Pop])
  | 9 :: _ :: tl => cur :: split_batches tl []
  | _ => match cur with [] => [] | _ => [cur] end
  end.

Definition enc_res (r : res) : list Z :=
  match r with RPush => [1; 0] | RPop v => [1; v] | RFail => [2; 0] end.

Fixpoint run_batches (q : cpq) (bs : list (list op)) : list Z :=
  match bs with
  | [] => []
  | b :: tl =>
      let '(q', rs) := handle_operations q b in
      flat_map (fun i => enc_res (res_at rs i)) (seq 0 (length b))
      ++ [Z.of_nat (length (data q')); Z.of_nat (mark q')] ++ data q' ++ [-7] ++ run_batches q' tl
  end.

Definition run_cpq (l : list Z) : list Z := run_batches (mk [] 0) (split_batches l []).

(* ================= element copy / assignment failures =================
   A pushed value may be "poisoned" (copying it into the queue throws) and a pop's destination may "reject"
   (assigning into it throws).  handle_operations answers such an operation with a failure status and leaves
   the queue untouched (concurrent_priority_queue.h: try/catch around push_back_helper, assign_popped). *)
Inductive fop := FPush (v : Z) (poison : bool) | FPop (reject : bool).
Inductive fres := FRPush | FRPushFail | FRPop (v : Z) | FRFail | FRThrow.

Fixpoint pass1f (q : cpq) (ops : list (nat * fop)) (postponed : list (nat * bool)) (done : list (nat * fres))
  : cpq * list (nat * bool) * list (nat * fres) :=
  match ops with
  | [] => (q, postponed, done)
  | (i, FPush v poison) :: tl =>
      if poison then pass1f q tl postponed ((i, FRPushFail) :: done)
      else pass1f (mk (data q ++ [v]) (mark q)) tl postponed ((i, FRPush) :: done)
  | (i, FPop reject) :: tl =>
      if back_beats_top q
      then (if reject then pass1f q tl postponed ((i, FRThrow) :: done)
            else pass1f (mk (removelast (data q)) (mark q)) tl postponed ((i, FRPop (back (data q))) :: done))
      else pass1f q tl ((i, reject) :: postponed) done
  end.

Fixpoint pass2f (q : cpq) (pops : list (nat * bool)) (done : list (nat * fres)) : cpq * list (nat * fres) :=
  match pops with
  | [] => (q, done)
  | (i, reject) :: tl =>
      match data q with
      | [] => pass2f q tl ((i, FRFail) :: done)
      | _ =>
        if reject then pass2f q tl ((i, FRThrow) :: done)
        else if back_beats_top q
        then pass2f (mk (removelast (data q)) (mark q)) tl ((i, FRPop (back (data q))) :: done)
        else let '(d', m') := reheap (data q) (mark q) in
             pass2f (mk d' m') tl ((i, FRPop (get (data q) 0)) :: done)
      end
  end.

Definition handle_operations_f (q : cpq) (batch : list fop) : cpq * list (nat * fres) :=
  let '(q1, postponed, done1) := pass1f q (number 0 batch) [] [] in
  let '(q2, done2) := pass2f q1 postponed done1 in
  let '(d3, m3) := if Nat.ltb (mark q2) (length (data q2)) then heapify (data q2) (mark q2)
                   else (data q2, mark q2) in
  (mk d3 m3, done2).

Definition fres_at (rs : list (nat * fres)) (i : nat) : fres :=
  match find (fun p => Nat.eqb (fst p) i) rs with Some (_, r) => r | None => FRFail end.

(* flat interface: 1 v push | 2 0 pop | 3 v push whose copy throws | 4 0 pop whose assignment throws | 9 9 end of batch.
   output per op (status, value): 1 ok, 2 failed / empty, 3 exception handed to the popping caller *)
Fixpoint split_fbatches (l : list Z) (cur : list fop) : list (list fop) :=
  match l with
  | 1 :: v :: tl => split_fbatches tl (cur ++ [FPush v false])
  | 2 :: _ :: tl => split_fbatches tl (cur ++ [FPop false])
  | 3 :: v :: tl => split_fbatches tl (cur ++ [FPush v true])
  | 4 :: _ :: tl => split_fbatches tl (cur ++ [FPop true])
  | 9 :: _ :: tl => cur :: split_fbatches tl []
  | _ => match cur with [] => [] | _ => [cur] end
  end.
Definition enc_fres (r : fres) : list Z :=
  match r with FRPush => [1; 0] | FRPushFail => [2; 0] | FRPop v => [1; v] | FRFail => [2; 0] | FRThrow => [3; 0] end.
Fixpoint run_fbatches (q : cpq) (bs : list (list fop)) : list Z :=
  match bs with
  | [] => []
  | b :: tl =>
      let '(q', rs) := handle_operations_f q b in
      flat_map (fun i => enc_fres (fres_at rs i)) (seq 0 (length b))
      ++ [Z.of_nat (length (data q')); Z.of_nat (mark q')] ++ data q' ++ [-7] ++ run_fbatches q' tl
  end.
Definition run_cpqf (l : list Z) : list Z := run_fbatches (mk [] 0) (split_fbatches l []).
