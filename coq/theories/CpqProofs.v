From OTV Require Import Lib.Tac CpqModel.
From Coq Require Import Permutation.
Local Open Scope nat_scope.

Lemma upd_length d i v : length (upd d i v) = length d.
Proof. revert i; induction d as [|x d IH]; intros [|i]; cbn; auto. Qed.

Lemma sift_up_length f : forall d cur v, length (sift_up f d cur v) = length d.
Proof.
  induction f as [|f IH]; intros d cur v; cbn [sift_up].
  - apply upd_length.
  - destruct (negb _); [apply upd_length|].
    destruct (Nat.eqb _ 0); rewrite ?IH, ?upd_length; auto.
Qed.

Lemma heapify_loop_length n : forall d m, length (fst (heapify_loop n d m)) = length d.
Proof.
  induction n as [|n IH]; intros d m; cbn [heapify_loop]; auto.
  destruct (Nat.ltb m (length d)); auto.
  rewrite IH, sift_up_length. auto.
Qed.

Lemma heapify_length d m : length (fst (heapify d m)) = length d.
Proof. unfold heapify. apply heapify_loop_length. Qed.

Lemma heapify_loop_mark n : forall d m,
  m <= length d -> length d - m <= n -> snd (heapify_loop n d m) = length d.
Proof.
  induction n as [|n IH]; intros d m Hm Hn; cbn [heapify_loop].
  - cbn. lia.
  - destruct (Nat.ltb_spec m (length d)) as [Hlt|Hge].
    + rewrite IH; rewrite ?sift_up_length; auto; lia.
    + cbn. lia.
Qed.

Lemma heapify_mark d m : m <= length d -> snd (heapify d m) = length d.
Proof.
  intros Hm. unfold heapify.
  destruct (andb _ _) eqn:E; apply heapify_loop_mark; lia.
Qed.

Lemma reheap_loop_length f : forall d m cur child,
  length (fst (reheap_loop f d m cur child)) = length d.
Proof.
  induction f as [|f IH]; intros d m cur child; cbn [reheap_loop]; auto.
  destruct (Nat.ltb child m); auto.
  destruct (cmp _ _); auto.
  rewrite IH, upd_length. auto.
Qed.

Lemma removelast_length {A} (l : list A) : length (removelast l) = length l - 1.
Proof.
  induction l as [|x l IH]; auto. cbn [removelast]. destruct l; auto.
  cbn [length] in *. lia.
Qed.

Lemma reheap_length d m : length (fst (reheap d m)) = length d - 1.
Proof.
  unfold reheap. pose proof (reheap_loop_length (length d) d m 0 1) as H.
  destruct (reheap_loop (length d) d m 0 1) as [d1 cur]. cbn [fst] in *.
  destruct (Nat.eqb cur (length d1 - 1)); cbn [fst]; rewrite removelast_length, ?upd_length; lia.
Qed.

Lemma reheap_mark d m : m <= length d -> snd (reheap d m) <= length (fst (reheap d m)).
Proof.
  intros Hm. pose proof (reheap_length d m) as HL. unfold reheap in *.
  destruct (reheap_loop (length d) d m 0 1) as [d1 cur]. cbn [fst snd] in *.
  match goal with |- context [Nat.ltb ?a ?b] => destruct (Nat.ltb_spec a b) end; lia.
Qed.

(* ---------- count-level conservation of one batch ---------- *)

Definition n_push (rs : list (nat * res)) : nat :=
  length (filter (fun p => match snd p with RPush => true | _ => false end) rs).
Definition n_pop (rs : list (nat * res)) : nat :=
  length (filter (fun p => match snd p with RPop _ => true | _ => false end) rs).

Definition wf (q : cpq) : Prop := mark q <= length (data q).

Lemma back_beats_top_lt q : back_beats_top q = true -> mark q < length (data q).
Proof. unfold back_beats_top. intros H. apply andb_prop in H. destruct H as [H _]. apply Nat.ltb_lt in H. auto. Qed.

Lemma pass1_spec ops : forall q postponed done q' postponed' done',
  pass1 q ops postponed done = (q', postponed', done') ->
  wf q ->
  wf q' /\
  length (data q') + n_pop done' = length (data q) + n_pop done + (n_push done' - n_push done) /\
  n_push done <= n_push done' /\
  Permutation (map fst done' ++ postponed') (map fst ops ++ map fst done ++ postponed).
Proof.
  induction ops as [|[i o] tl IH]; intros q postponed done q' postponed' done' H Hwf; cbn [pass1] in H.
  - inv H. repeat split; auto; try lia; cbn; auto.
  - destruct o as [v|].
    + apply IH in H; [|unfold wf in *; cbn; rewrite app_length; cbn; lia].
      destruct H as (Hw & Hl & Hp & Hperm). repeat split; auto.
      * cbn [data] in Hl. rewrite app_length in Hl. cbn in Hl. unfold n_push, n_pop in *. cbn in *. lia.
      * unfold n_push in *. cbn in *. lia.
      * cbn [map fst] in *. eapply Permutation_trans; [exact Hperm|].
        cbn. apply Permutation_sym. apply Permutation_middle.
    + destruct (back_beats_top q) eqn:E.
      * pose proof (back_beats_top_lt _ E) as Hlt.
        apply IH in H; [|unfold wf in *; cbn; rewrite removelast_length; lia].
        destruct H as (Hw & Hl & Hp & Hperm). repeat split; auto.
        -- cbn [data] in Hl. rewrite removelast_length in Hl. unfold n_push, n_pop in *. cbn in *. lia.
        -- cbn [map fst] in *. eapply Permutation_trans; [exact Hperm|].
           cbn. apply Permutation_sym. apply Permutation_middle.
      * apply IH in H; auto.
        destruct H as (Hw & Hl & Hp & Hperm). repeat split; auto.
        cbn [map fst] in *. eapply Permutation_trans; [exact Hperm|].
        cbn. rewrite !app_assoc. apply Permutation_sym. rewrite <- app_assoc. 
        change (i :: (map fst tl ++ map fst done) ++ postponed) with (i :: ((map fst tl ++ map fst done) ++ postponed)).
        rewrite app_assoc. apply Permutation_middle.
Qed.

Lemma pass2_empty_stays tl : forall q done q' done',
  data q = [] -> pass2 q tl done = (q', done') -> data q' = [].
Proof.
  induction tl as [|k tl IH]; intros q done q' done' He H; cbn [pass2] in H.
  - inv H. auto.
  - rewrite He in H. eapply IH; eauto.
Qed.

Lemma pass2_spec pops : forall q done q' done',
  pass2 q pops done = (q', done') ->
  wf q ->
  wf q' /\
  length (data q') + n_pop done' = length (data q) + n_pop done /\
  n_push done' = n_push done /\
  Permutation (map fst done') (pops ++ map fst done) /\
  (* a pop fails only on an empty queue *)
  (forall i, In (i, RFail) done' -> In (i, RFail) done \/ data q' = []).
Proof.
  induction pops as [|i tl IH]; intros q done q' done' H Hwf; cbn [pass2] in H.
  - inv H. repeat split; auto. 
  - destruct (data q) as [|x d] eqn:Ed.
    + pose proof (pass2_empty_stays _ _ _ _ _ Ed H) as Hstay.
      apply IH in H; auto. destruct H as (Hw & Hl & Hp & Hperm & Hf).
      repeat split; auto;
        try (rewrite ?Ed in *; unfold n_pop, n_push in *; cbn in *; lia);
        try (eapply Permutation_trans; [exact Hperm|]; cbn; apply Permutation_sym, Permutation_middle).
    + rewrite <- Ed in *.
      destruct (back_beats_top q) eqn:E.
      * pose proof (back_beats_top_lt _ E) as Hlt.
        apply IH in H; [|unfold wf in *; cbn; rewrite removelast_length; lia].
        destruct H as (Hw & Hl & Hp & Hperm & Hf). repeat split; auto.
        -- cbn [data] in Hl. rewrite removelast_length in Hl. unfold n_pop in *. cbn in *. lia.
        -- eapply Permutation_trans; [exact Hperm|]. cbn. apply Permutation_sym, Permutation_middle.
        -- intros j Hj. destruct (Hf j Hj) as [[Hin|Hin]|He]; auto. inv Hin.
      * destruct (reheap (data q) (mark q)) as [d' m'] eqn:Er.
        pose proof (reheap_length (data q) (mark q)) as HL.
        pose proof (reheap_mark (data q) (mark q) Hwf) as HM. rewrite Er in HL, HM. cbn [fst snd] in *.
        apply IH in H; [|unfold wf; cbn; lia].
        destruct H as (Hw & Hl & Hp & Hperm & Hf). repeat split; auto.
        -- cbn [data] in Hl. assert (length (data q) >= 1) by (rewrite Ed; cbn; lia).
           unfold n_pop in *. cbn in *. lia.
        -- eapply Permutation_trans; [exact Hperm|]. cbn. apply Permutation_sym, Permutation_middle.
        -- intros j Hj. destruct (Hf j Hj) as [[Hin|Hin]|He]; auto. inv Hin.
Qed.

Lemma number_fst {A} (l : list A) : forall n, map fst (number n l) = seq n (length l).
Proof. induction l as [|x l IH]; intros n; cbn; auto. rewrite IH. auto. Qed.

Lemma batch_accounting_proof q batch q' rs :
  handle_operations q batch = (q', rs) -> wf q ->
  mark q' = length (data q') /\
  length (data q') + n_pop rs = length (data q) + n_push rs /\
  Permutation (map fst rs) (seq 0 (length batch)).
Proof.
  unfold handle_operations. intros H Hwf.
  destruct (pass1 q (number 0 batch) [] []) as [[q1 postponed] done1] eqn:E1.
  destruct (pass2 q1 postponed done1) as [q2 done2] eqn:E2.
  apply pass1_spec in E1; auto. destruct E1 as (Hw1 & Hl1 & Hp1 & Hperm1).
  apply pass2_spec in E2; auto. destruct E2 as (Hw2 & Hl2 & Hp2 & Hperm2 & _).
  assert (HP : Permutation (map fst done2) (seq 0 (length batch))).
  { eapply Permutation_trans; [exact Hperm2|].
    eapply Permutation_trans; [apply Permutation_app_comm|].
    eapply Permutation_trans; [exact Hperm1|]. cbn. rewrite !app_nil_r, number_fst. apply Permutation_refl. }
  assert (HA : length (data q2) + n_pop done2 = length (data q) + n_push done2).
  { unfold n_push, n_pop in *. cbn in *. lia. }
  destruct (Nat.ltb_spec (mark q2) (length (data q2))) as [Hlt|Hge].
  - pose proof (heapify_length (data q2) (mark q2)) as HL.
    pose proof (heapify_mark (data q2) (mark q2) ltac:(lia)) as HM.
    destruct (heapify (data q2) (mark q2)) as [d3 m3]. cbn [fst snd] in *.
    inv H. cbn [data mark]. repeat split; auto; lia.
  - inv H. unfold wf in Hw2. cbn [data mark]. repeat split; auto; lia.
Qed.

Lemma pass1_no_fail ops : forall q postponed done q' postponed' done' i,
  pass1 q ops postponed done = (q', postponed', done') ->
  In (i, RFail) done' -> In (i, RFail) done.
Proof.
  induction ops as [|[k o] tl IH]; intros q postponed done q' postponed' done' i H Hin; cbn [pass1] in H.
  - inv H. auto.
  - destruct o as [v|].
    + eapply IH in H; eauto. destruct H as [H|H]; [inv H|auto].
    + destruct (back_beats_top q).
      * eapply IH in H; eauto. destruct H as [H|H]; [inv H|auto].
      * eapply IH in H; eauto.
Qed.

Lemma pop_fails_only_when_empty_proof q batch q' rs i :
  handle_operations q batch = (q', rs) -> wf q ->
  In (i, RFail) rs -> data q' = [].
Proof.
  unfold handle_operations. intros H Hwf Hin.
  destruct (pass1 q (number 0 batch) [] []) as [[q1 postponed] done1] eqn:E1.
  destruct (pass2 q1 postponed done1) as [q2 done2] eqn:E2.
  pose proof (pass1_spec _ _ _ _ _ _ _ E1 Hwf) as (Hw1 & _).
  pose proof (pass2_spec _ _ _ _ _ E2 Hw1) as (_ & _ & _ & _ & Hf).
  assert (Hrs : rs = done2).
  { destruct (Nat.ltb (mark q2) (length (data q2))); [destruct (heapify _ _)|]; inv H; auto. }
  subst rs. destruct (Hf i Hin) as [Hd|He].
  - eapply pass1_no_fail in Hd; eauto. inv Hd.
  - rewrite He in H. cbn in H. inv H. auto.
Qed.

(* ---------- element copy / assignment failures are isolated ---------- *)
Definition faulty (o : fop) : bool := match o with FPush _ p => p | FPop r => r end.
Definition to_op (o : fop) : op := match o with FPush v _ => Push v | FPop _ => Pop end.
Definition strip_ops (ops : list (nat * fop)) : list (nat * op) :=
  map (fun p => (fst p, to_op (snd p))) (filter (fun p => negb (faulty (snd p))) ops).
Definition strip_post (ps : list (nat * bool)) : list nat := map fst (filter (fun p => negb (snd p)) ps).
Definition strip_res (rs : list (nat * fres)) : list (nat * res) :=
  flat_map (fun p => match snd p with
                     | FRPush => [(fst p, RPush)] | FRPop v => [(fst p, RPop v)]
                     | FRFail => [(fst p, RFail)] | FRPushFail | FRThrow => [] end) rs.

(* results of faulty operations only *)
Definition fault_only (rs : list (nat * fres)) : list (nat * fres) :=
  filter (fun p => match snd p with FRPushFail | FRThrow => true | _ => false end) rs.

Lemma pass1f_isolated ops : forall q P D q' P' D',
  pass1f q ops P D = (q', P', D') ->
  pass1 q (strip_ops ops) (strip_post P) (strip_res D) = (q', strip_post P', strip_res D').
Proof.
  induction ops as [|[i o] tl IH]; intros q P D q' P' D' H; cbn [pass1f] in H.
  - inv H. reflexivity.
  - destruct o as [v poison|reject]; unfold strip_ops; cbn [filter faulty snd fst map to_op].
    + destruct poison; cbn [negb].
      * apply IH in H. exact H.
      * cbn [map fst snd to_op pass1]. apply IH in H. exact H.
    + destruct (back_beats_top q) eqn:E.
      * destruct reject; cbn [negb].
        -- apply IH in H. exact H.
        -- cbn [map fst snd to_op pass1]. rewrite E. apply IH in H. exact H.
      * destruct reject; cbn [negb].
        -- apply IH in H. unfold strip_post in H. cbn [filter snd negb] in H. exact H.
        -- cbn [map fst snd to_op pass1]. rewrite E. apply IH in H. unfold strip_post in H. cbn [filter snd negb map fst] in H. exact H.
Qed.

(* a rejecting pop that is postponed is answered FRFail when the queue is empty, FRThrow otherwise: in both cases
   the queue is untouched, so removing it from the pop list changes nothing for the others *)
Definition strip_res2 (rs : list (nat * fres)) (rej : list nat) : list (nat * res) :=
  strip_res (filter (fun p => negb (existsb (Nat.eqb (fst p)) rej)) rs).

Lemma pass2f_isolated pops : forall q D q' D' rej,
  pass2f q pops D = (q', D') ->
  (forall i, In (i, true) pops -> In i rej) -> (forall i, In (i, false) pops -> ~ In i rej) ->
  pass2 q (strip_post pops) (strip_res2 D rej) = (q', strip_res2 D' rej).
Proof.
  induction pops as [|[i reject] tl IH]; intros q D q' D' rej H Hrej Hnrej; cbn [pass2f] in H.
  - inv H. reflexivity.
  - assert (Hrej' : forall j, In (j, true) tl -> In j rej) by (intros; apply Hrej; right; auto).
    assert (Hnrej' : forall j, In (j, false) tl -> ~ In j rej) by (intros; apply Hnrej; right; auto).
    unfold strip_post. cbn [filter snd].
    assert (Hin_rej : forall b, reject = b -> existsb (Nat.eqb i) rej = b).
    { intros b Hb. subst b. destruct reject.
      - apply existsb_exists. exists i. split; [apply Hrej; left; auto|apply Nat.eqb_refl].
      - destruct (existsb (Nat.eqb i) rej) eqn:E; auto. apply existsb_exists in E. destruct E as (x & Hx & Heq).
        apply Nat.eqb_eq in Heq. subst x. exfalso. apply (Hnrej i); auto. left; auto. }
    destruct (data q) as [|x d] eqn:Ed.
    + (* empty: FRFail for everybody; a rejecting pop's FRFail is dropped by strip_res2 *)
      apply IH with (rej := rej) in H; auto.
      unfold strip_res2 in H at 1. cbn [filter fst] in H. rewrite (Hin_rej reject eq_refl) in H.
      destruct reject; cbn [negb] in H |- *.
      * exact H.
      * cbn [map fst pass2]. rewrite Ed. unfold strip_res2 at 1. cbn [strip_res flat_map snd fst app] in H. exact H.
    + rewrite <- Ed in *. destruct reject; cbn [negb].
      * apply IH with (rej := rej) in H; auto.
        unfold strip_res2 in H at 1. cbn [filter fst] in H. rewrite (Hin_rej true eq_refl) in H. cbn [negb] in H. exact H.
      * cbn [map fst pass2]. rewrite Ed. rewrite <- Ed.
        destruct (back_beats_top q) eqn:E.
        -- apply IH with (rej := rej) in H; auto.
           unfold strip_res2 in H at 1. cbn [filter fst] in H. rewrite (Hin_rej false eq_refl) in H.
           cbn [negb strip_res flat_map snd fst app] in H. exact H.
        -- destruct (reheap (data q) (mark q)) as [d' m'] eqn:Er.
           apply IH with (rej := rej) in H; auto.
           unfold strip_res2 in H at 1. cbn [filter fst] in H. rewrite (Hin_rej false eq_refl) in H.
           cbn [negb strip_res flat_map snd fst app] in H. exact H.
Qed.
