(* C09 — concurrent_queue / concurrent_bounded_queue.  Property theorems only; proofs live in QueueProofs.v. *)
From OTV Require Import Lib.Tac Lib.Conc Params QueueModel QueueProofs BqModel BqProofs.
Local Open Scope Z_scope.

(* n_queue consecutive tickets are spread over n_queue distinct lanes (phi is invertible modulo n_queue) *)
Theorem lane_bijection : forall k1 k2, 0 <= k1 -> 0 <= k2 -> (lane k1 = lane k2 <-> k1 mod q_n_queue = k2 mod q_n_queue).
Proof. exact lane_bijection_proof. Qed.
Print Assumptions lane_bijection.

(* within a lane the per-lane turn counter advances by exactly n_queue from one ticket of the lane to the next *)
Theorem lane_ticket_step : forall k1 k2,
  0 <= k1 < k2 -> lane k1 = lane k2 ->
  lane_ticket k1 + q_n_queue <= lane_ticket k2 /\ (lane_ticket k2 - lane_ticket k1) mod q_n_queue = 0.
Proof. exact lane_ticket_step_proof. Qed.
Print Assumptions lane_ticket_step.

(* Ticket protocol (no abort), any number of threads, any interleaving of the four kinds of steps:
   the pop holding ticket k receives exactly the value of the k-th push ticket: FIFO in push-linearisation order,
   nothing invented. *)
Theorem fifo_by_ticket : forall ops s th k v,
  qrun false qinit ops = Some s -> In (th, k, v) (q_out s) -> 0 <= k /\ nth_error (values s) (Z.to_nat k) = Some v.
Proof. exact fifo_by_ticket_proof. Qed.
Print Assumptions fifo_by_ticket.

(* every item is delivered at most once, and two live pops never hold the same ticket *)
Theorem each_item_at_most_once : forall ops s,
  qrun false qinit ops = Some s -> NoDup (map (fun o => snd (fst o)) (q_out s)) /\ NoDup (map snd (q_poppers s)).
Proof. exact at_most_once_proof. Qed.
Print Assumptions each_item_at_most_once.

Theorem push_order_is_stable : forall ops1 ops2 s1 s2,
  qrun false qinit ops1 = Some s1 -> qrun false s1 ops2 = Some s2 -> extends (values s1) (values s2).
Proof. exact history_stable_proof. Qed.
Print Assumptions push_order_is_stable.

(* concurrent_bounded_queue::abort with a blocked pop: the statement "abort wakes every blocked caller without losing or
   duplicating any item" is REFUTED for the code as it is — the aborted pop gives back *a* ticket (head_counter--), not
   its own.  Known finding (KNOWN_FINDINGS.txt, key bqueue-abort-ticket-reuse); replayed on the real queue by the check. *)
Theorem bqueue_abort_refuted_ticket_reuse :
  exists ops s, qrun true qinit ops = Some s /\ ~ NoDup (map snd (q_poppers s)).
Proof. exact abort_breaks_ticket_uniqueness_proof. Qed.
Print Assumptions bqueue_abort_refuted_ticket_reuse.

Theorem bqueue_abort_refuted_item_overtaken :
  exists s, qrun true qinit [PopTake 1; PopTake 2; PopAbort 1; PushTake 7 100; PushPublish 7; PushTake 7 200; PushPublish 7; PopConsume 2] = Some s /\
    q_out s = [(2, 1, 200)] /\ nth_error (q_cells s) 0 = Some (100, Published) /\ ~ In 0 (map snd (q_poppers s)).
Proof. exact abort_loses_item_proof. Qed.
Print Assumptions bqueue_abort_refuted_item_overtaken.

(* ---- concurrent_bounded_queue: the try_push / try_pop ticket-claim loops (BqModel) ----
   For ANY capacity >= 0, ANY number of threads, ANY scripts of try_push / try_pop and ANY interleaving of
   their accesses to head_counter / tail_counter: *)

(* the number of claimed-but-unconsumed tickets never exceeds the capacity and never goes negative *)
Theorem bqueue_capacity_never_exceeded : forall cap scripts c,
  0 <= cap -> reach btstep (binit cap scripts) c ->
  b_head (fst c) <= b_tail (fst c) /\ b_tail (fst c) - b_head (fst c) <= cap.
Proof.
  intros cap scripts c Hc Hr.
  assert (HI := binv_reach _ _ _ Hc Hr). destruct HI as ((H1 & H2) & _).
  assert (Hcap : b_cap (fst c) = cap).
  { clear H1 H2. induction Hr as [|c1 i c2 ev Hr IH Hs]; [reflexivity|].
    assert (HI := binv_reach _ _ _ Hc Hr). destruct HI as (Hg & HF).
    unfold step_at in Hs. destruct (nth_error (snd c1) i) as [l|] eqn:En; [|discriminate].
    destruct (btstep i (fst c1) l) as [[[g' l'] e]|] eqn:Et; [|discriminate]. inv Hs.
    destruct (btstep_ok _ _ _ _ _ _ Hg (Forall_nth_error _ _ _ _ HF En) Et) as ((_ & _ & Hm) & _).
    cbn. congruence. }
  rewrite <- Hcap. auto.
Qed.
Print Assumptions bqueue_capacity_never_exceeded.

(* try_push reports "full" only at an access at which capacity-many tickets are outstanding, try_pop reports
   "empty" only at an access at which none is; a successful try_push / try_pop takes exactly the next ticket
   (tickets are handed out once each, in order) while the queue is not full / not empty *)
Theorem bqueue_try_ops_decide_on_current_counters : forall cap scripts c i c' ev,
  0 <= cap -> reach btstep (binit cap scripts) c -> step_at btstep c i = Some (c', ev) ->
  let g := fst c in let g' := fst c' in
  (forall k, note_of ev = Some (OTryPush, 0, k) -> b_tail g - b_head g >= b_cap g) /\
  (forall k, note_of ev = Some (OTryPop, 0, k) -> b_tail g - b_head g <= 0) /\
  (forall k, note_of ev = Some (OTryPush, 1, k) ->
     k = b_tail g /\ b_tail g' = k + 1 /\ b_head g' = b_head g /\ b_tail g - b_head g < b_cap g) /\
  (forall k, note_of ev = Some (OTryPop, 1, k) ->
     k = b_head g /\ b_head g' = k + 1 /\ b_tail g' = b_tail g /\ b_head g < b_tail g).
Proof. intros. eapply step_decisions; eauto. eapply binv_reach; eauto. Qed.
Print Assumptions bqueue_try_ops_decide_on_current_counters.

Theorem bqueue_run_is_reachable : forall cap scripts sched c evs,
  run btstep (binit cap scripts) sched = (c, evs) -> reach btstep (binit cap scripts) c.
Proof. intros. eapply run_reach; eauto. Qed.
Print Assumptions bqueue_run_is_reachable.

(* non-vacuity: capacity 1, two pushers and a popper: a try_push is refused while the single slot is taken *)
Example bq_full_is_reachable :
  let '(_, evs) := run btstep (binit 1 [[3]; [3]; [2]]) [0; 0; 0; 1; 1]%nat in
  note_of (skipn 35 evs) = Some (OTryPush, 0, -1).
Proof. vm_compute. reflexivity. Qed.
