(* C09 — concurrent_queue / concurrent_bounded_queue.  Property theorems only; proofs live in QueueProofs.v. *)
From OTV Require Import Lib.Tac Params QueueModel QueueProofs.
Local Open Scope Z_scope.

(* n_queue consecutive tickets are spread over n_queue distinct lanes (phi is invertible modulo n_queue) *)
Theorem lane_bijection : forall k1 k2, 0 <= k1 -> 0 <= k2 -> (lane k1 = lane k2 <-> k1 mod q_n_queue = k2 mod q_n_queue).
Proof. exact lane_bijection_proof. Qed.
Print Assumptions lane_bijection.

(* within a lane the per-lane turn counter advances by exactly n_queue from one ticket of the lane to the next *)
Theorem lane_ticket_step : forall k1 k2,
  0 <= k1 < k2 -> lane k1 = lane k2 ->
  lane_ticket k1 + q_n_queue <= lane_ticket k2 /\ (lane_ticket k2 - lane_ticket k1) mod q_n_queue = 0.
Proof. exact lane_ticket_step_proof. Qed.
Print Assumptions lane_ticket_step.

(* Ticket protocol (no abort), any number of threads, any interleaving of the four kinds of steps:
   the pop holding ticket k receives exactly the value of the k-th push ticket: FIFO in push-linearisation order,
   nothing invented. *)
Theorem fifo_by_ticket : forall ops s th k v,
  qrun false qinit ops = Some s -> In (th, k, v) (q_out s) -> 0 <= k /\ nth_error (values s) (Z.to_nat k) = Some v.
Proof. exact fifo_by_ticket_proof. Qed.
Print Assumptions fifo_by_ticket.

(* every item is delivered at most once, and two live pops never hold the same ticket *)
Theorem each_item_at_most_once : forall ops s,
  qrun false qinit ops = Some s -> NoDup (map (fun o => snd (fst o)) (q_out s)) /\ NoDup (map snd (q_poppers s)).
Proof. exact at_most_once_proof. Qed.
Print Assumptions each_item_at_most_once.

Theorem push_order_is_stable : forall ops1 ops2 s1 s2,
  qrun false qinit ops1 = Some s1 -> qrun false s1 ops2 = Some s2 -> extends (values s1) (values s2).
Proof. exact history_stable_proof. Qed.
Print Assumptions push_order_is_stable.

(* concurrent_bounded_queue::abort with a blocked pop: the statement "abort wakes every blocked caller without losing or
   duplicating any item" is REFUTED for the code as it is — the aborted pop gives back *a* ticket (head_counter--), not
   its own.  Known finding (KNOWN_FINDINGS.txt, key bqueue-abort-ticket-reuse); replayed on the real queue by the check. *)
Theorem bqueue_abort_refuted_ticket_reuse :
  exists ops s, qrun true qinit ops = Some s /\ ~ NoDup (map snd (q_poppers s)).
Proof. exact abort_breaks_ticket_uniqueness_proof. Qed.
Print Assumptions bqueue_abort_refuted_ticket_reuse.

Theorem bqueue_abort_refuted_item_overtaken :
  exists s, qrun true qinit [PopTake 1; PopTake 2; PopAbort 1; PushTake 7 100; PushPublish 7; PushTake 7 200; PushPublish 7; PopConsume 2] = Some s /\
    q_out s = [(2, 1, 200)] /\ nth_error (q_cells s) 0 = Some (100, Published) /\ ~ In 0 (map snd (q_poppers s)).
Proof. exact abort_loses_item_proof. Qed.
Print Assumptions bqueue_abort_refuted_item_overtaken.
