// Force-included prelude (g++ -include): turns every std::atomic<T> access of the translation unit into a
// scheduling point of the deterministic gate (harness/gate/gate.h) and logs it.  No oneTBB source is modified.
// Technique: include every standard header first, define std::verif_atomic<T> (a wrapper around the real
// std::atomic<T>), then `#define atomic verif_atomic` so that oneTBB's `std::atomic<...>` names the wrapper.
#ifndef VERIF_ATOMIC_PRELUDE_H
#define VERIF_ATOMIC_PRELUDE_H
#ifdef __cplusplus
#include <atomic>
#include <algorithm>
#include <array>
#include <cassert>
#include <cerrno>
#include <chrono>
#include <climits>
#include <cmath>
#include <condition_variable>
#include <cstdarg>
#include <cstddef>
#include <cstdint>
#include <cstdio>
#include <cstdlib>
#include <cstring>
#include <ctime>
#include <deque>
#include <exception>
#include <functional>
#include <future>
#include <initializer_list>
#include <iostream>
#include <iterator>
#include <limits>
#include <list>
#include <map>
#include <memory>
#include <mutex>
#include <new>
#include <numeric>
#include <queue>
#include <random>
#include <set>
#include <sstream>
#include <stdexcept>
#include <string>
#include <thread>
#include <tuple>
#include <type_traits>
#include <typeinfo>
#include <unordered_map>
#include <unordered_set>
#include <utility>
#include <vector>
#include <shared_mutex>
#include <bitset>
#include <fstream>
#include <iomanip>
#include <immintrin.h>
#include <pthread.h>
#include <semaphore.h>
#include <sched.h>
#include <unistd.h>
#include <sys/syscall.h>
#include <sys/mman.h>
#include <dlfcn.h>

// kinds
enum { VA_LOAD = 1, VA_STORE = 2, VA_XCHG = 3, VA_CAS = 4, VA_ADD = 5, VA_SUB = 6, VA_OR = 7, VA_AND = 8, VA_FENCE = 9, VA_XOR = 10 };

extern "C" {
// called BEFORE the access: blocks until the gate grants this logical thread its next step
void verif_sched_point(const void* addr, int kind, int order);
// called AFTER the access with the observed/written values (64-bit images); ok: CAS success (else 1)
void verif_log(const void* addr, int kind, int order, unsigned long long before, unsigned long long after, int ok);
}

namespace std {
template <class T> inline unsigned long long verif_img(const T& v) {
    unsigned long long u = 0;
    if (sizeof(T) <= sizeof(u)) { memcpy(&u, &v, sizeof(T)); }
    return u;
}

template <class T>
struct verif_atomic {
    std::atomic<T> v;
    using value_type = T;
    static constexpr bool is_always_lock_free = std::atomic<T>::is_always_lock_free;

    verif_atomic() noexcept = default;
    constexpr verif_atomic(T d) noexcept : v(d) {}
    verif_atomic(const verif_atomic&) = delete;
    verif_atomic& operator=(const verif_atomic&) = delete;

    bool is_lock_free() const noexcept { return v.is_lock_free(); }

    T load(memory_order o = memory_order_seq_cst) const noexcept {
        verif_sched_point(this, VA_LOAD, (int)o);
        T r = v.load(o);
        verif_log(this, VA_LOAD, (int)o, verif_img(r), verif_img(r), 1);
        return r;
    }
    void store(T d, memory_order o = memory_order_seq_cst) noexcept {
        verif_sched_point(this, VA_STORE, (int)o);
        T b = v.load(memory_order_relaxed);
        v.store(d, o);
        verif_log(this, VA_STORE, (int)o, verif_img(b), verif_img(d), 1);
    }
    T exchange(T d, memory_order o = memory_order_seq_cst) noexcept {
        verif_sched_point(this, VA_XCHG, (int)o);
        T r = v.exchange(d, o);
        verif_log(this, VA_XCHG, (int)o, verif_img(r), verif_img(d), 1);
        return r;
    }
    bool compare_exchange_strong(T& e, T d, memory_order s, memory_order f) noexcept {
        verif_sched_point(this, VA_CAS, (int)s);
        bool ok = v.compare_exchange_strong(e, d, s, f);
        verif_log(this, VA_CAS, (int)s, verif_img(e), verif_img(d), ok ? 1 : 0);
        return ok;
    }
    bool compare_exchange_strong(T& e, T d, memory_order o = memory_order_seq_cst) noexcept {
        verif_sched_point(this, VA_CAS, (int)o);
        bool ok = v.compare_exchange_strong(e, d, o);
        verif_log(this, VA_CAS, (int)o, verif_img(e), verif_img(d), ok ? 1 : 0);
        return ok;
    }
    // weak CAS is executed as a strong one: spurious failure is not modelled (every caller loops)
    bool compare_exchange_weak(T& e, T d, memory_order s, memory_order f) noexcept { return compare_exchange_strong(e, d, s, f); }
    bool compare_exchange_weak(T& e, T d, memory_order o = memory_order_seq_cst) noexcept { return compare_exchange_strong(e, d, o); }

    operator T() const noexcept { return load(); }
    T operator=(T d) noexcept { store(d); return d; }

    template <class U = T, class A>
    auto fetch_add(A a, memory_order o = memory_order_seq_cst) noexcept -> decltype(std::declval<std::atomic<U>&>().fetch_add(a, o)) {
        verif_sched_point(this, VA_ADD, (int)o);
        T r = v.fetch_add(a, o);
        verif_log(this, VA_ADD, (int)o, verif_img(r), verif_img(v.load(memory_order_relaxed)), 1);
        return r;
    }
    template <class U = T, class A>
    auto fetch_sub(A a, memory_order o = memory_order_seq_cst) noexcept -> decltype(std::declval<std::atomic<U>&>().fetch_sub(a, o)) {
        verif_sched_point(this, VA_SUB, (int)o);
        T r = v.fetch_sub(a, o);
        verif_log(this, VA_SUB, (int)o, verif_img(r), verif_img(v.load(memory_order_relaxed)), 1);
        return r;
    }
    template <class U = T, class A>
    auto fetch_or(A a, memory_order o = memory_order_seq_cst) noexcept -> decltype(std::declval<std::atomic<U>&>().fetch_or(a, o)) {
        verif_sched_point(this, VA_OR, (int)o);
        T r = v.fetch_or(a, o);
        verif_log(this, VA_OR, (int)o, verif_img(r), verif_img(v.load(memory_order_relaxed)), 1);
        return r;
    }
    template <class U = T, class A>
    auto fetch_and(A a, memory_order o = memory_order_seq_cst) noexcept -> decltype(std::declval<std::atomic<U>&>().fetch_and(a, o)) {
        verif_sched_point(this, VA_AND, (int)o);
        T r = v.fetch_and(a, o);
        verif_log(this, VA_AND, (int)o, verif_img(r), verif_img(v.load(memory_order_relaxed)), 1);
        return r;
    }
    template <class U = T, class A>
    auto fetch_xor(A a, memory_order o = memory_order_seq_cst) noexcept -> decltype(std::declval<std::atomic<U>&>().fetch_xor(a, o)) {
        verif_sched_point(this, VA_XOR, (int)o);
        T r = v.fetch_xor(a, o);
        verif_log(this, VA_XOR, (int)o, verif_img(r), verif_img(v.load(memory_order_relaxed)), 1);
        return r;
    }
    template <class U = T> auto operator++() noexcept -> decltype(std::declval<std::atomic<U>&>().fetch_add(1)) { return fetch_add(1) + 1; }
    template <class U = T> auto operator++(int) noexcept -> decltype(std::declval<std::atomic<U>&>().fetch_add(1)) { return fetch_add(1); }
    template <class U = T> auto operator--() noexcept -> decltype(std::declval<std::atomic<U>&>().fetch_sub(1)) { return fetch_sub(1) - 1; }
    template <class U = T> auto operator--(int) noexcept -> decltype(std::declval<std::atomic<U>&>().fetch_sub(1)) { return fetch_sub(1); }
    template <class U = T, class A> auto operator+=(A a) noexcept -> decltype(std::declval<std::atomic<U>&>().fetch_add(a)) { return fetch_add(a) + a; }
    template <class U = T, class A> auto operator-=(A a) noexcept -> decltype(std::declval<std::atomic<U>&>().fetch_sub(a)) { return fetch_sub(a) - a; }
    template <class U = T, class A> auto operator|=(A a) noexcept -> decltype(std::declval<std::atomic<U>&>().fetch_or(a)) { return fetch_or(a) | a; }
    template <class U = T, class A> auto operator&=(A a) noexcept -> decltype(std::declval<std::atomic<U>&>().fetch_and(a)) { return fetch_and(a) & a; }
};

inline void verif_atomic_thread_fence(memory_order o) noexcept {
    verif_sched_point(nullptr, VA_FENCE, (int)o);
    std::atomic_thread_fence(o);
    verif_log(nullptr, VA_FENCE, (int)o, 0, 0, 1);
}
}  // namespace std

#define atomic verif_atomic
#define atomic_thread_fence verif_atomic_thread_fence
#endif  // __cplusplus
#endif
