// C11 driver (gate, component scope, oracle only): real concurrent_vector<int, FailAlloc> under a given interleaving,
// with the element allocator throwing on its K-th allocate() call.
// input per case: failk nthreads, per thread (len, (op arg)*), -1, schedule.   ops: 0 grow_by(d) 1 push_back 2 grow_to_at_least(n)
// output: per thread per op: 1 ok / 2 threw;  then WILD <n> LEAKCHK <live allocations after destruction> size <n> FIN <0/1>
#include "drv/common.h"
#include "gate/gate.h"
#include "oneapi/tbb/concurrent_vector.h"
using namespace vh;

struct AllocLog { char* p; size_t bytes; bool live; };
static std::vector<AllocLog> g_allocs;
static long g_alloc_calls = 0, g_fail_at = -1, g_wild = 0, g_double_construct = 0, g_g2al_unalloc = 0;
static std::vector<char*> g_constructed;

template <class T> struct FailAlloc {
    using value_type = T;
    FailAlloc() = default;
    template <class U> FailAlloc(const FailAlloc<U>&) {}
    T* allocate(size_t n) {
        if (sizeof(T) == sizeof(int)) {       // element segments only; the pointer table uses another instantiation
            long k = g_alloc_calls++;
            if (k == g_fail_at) throw std::bad_alloc();
        }
        char* p = (char*)std::malloc(n * sizeof(T) + 1);
        g_allocs.push_back({p, n * sizeof(T), true});
        return (T*)p;
    }
    void deallocate(T* p, size_t) {
        for (auto& a : g_allocs) if (a.p == (char*)p && a.live) { a.live = false; break; }
        std::free(p);
    }
    template <class U, class... A> void construct(U* p, A&&... a) {
        char* cp = (char*)p; bool inside = false;
        for (auto& al : g_allocs) if (al.live && cp >= al.p && cp + sizeof(U) <= al.p + al.bytes) inside = true;
        if (!inside) { g_wild++; return; }      // do not touch unallocated memory; report it
        if (sizeof(U) == sizeof(int)) { for (char* q : g_constructed) if (q == cp) g_double_construct++; g_constructed.push_back(cp); }
        ::new ((void*)p) U(std::forward<A>(a)...);
    }
    template <class U> void destroy(U* p) { p->~U(); }
    template <class U> bool operator==(const FailAlloc<U>&) const { return true; }
    template <class U> bool operator!=(const FailAlloc<U>&) const { return false; }
};

typedef tbb::concurrent_vector<int, FailAlloc<int>> V;

int main() {
    std::vector<i128> c;
    while (read_case(c)) {
        gate::reset(); g_allocs.clear(); g_alloc_calls = 0; g_wild = 0; g_double_construct = 0; g_g2al_unalloc = 0; g_constructed.clear();
        size_t p = 0; g_fail_at = (long)c[p++]; int n = (int)c[p++];
        V* v = new V();
        std::vector<std::vector<int>> results(n);
        for (int t = 0; t < n; ++t) {
            int len = (int)c[p++]; std::vector<std::pair<int, long>> sc;
            for (int k = 0; k < len; ++k) { int op = (int)c[p++]; long a = (long)c[p++]; sc.push_back({op, a}); }
            gate::spawn([v, sc, t, &results] {
                for (auto& oa : sc) {
                    int r = 1;
                    try {
                        if (oa.first == 0) v->grow_by((size_t)oa.second, 7);
                        else if (oa.first == 1) v->push_back(9);
                        else { v->grow_to_at_least((size_t)oa.second, 5);
                               // "returns only when all elements below n are constructed": at the very least their segments must exist
                               if (g_fail_at < 0 && v->capacity() < (size_t)oa.second) g_g2al_unalloc++; }
                    } catch (...) { r = 2; }
                    results[t].push_back(r);
                    if (r == 2) break;   // the vector is "broken" for this thread: stop growing
                }
            });
        }
        p++;
        std::vector<int> sched;
        for (; p < c.size(); ++p) sched.push_back((int)c[p]);
        bool ok = gate::run(sched, 20000);
        Out o;
        for (int t = 0; t < n; ++t) { for (int r : results[t]) o.put(r); o.put(-1); }
        o.word("WILD"); o.put(g_wild); o.word("DOUBLE"); o.put(g_double_construct); o.word("G2ALUNALLOC"); o.put(g_g2al_unalloc);
        if (!ok) { o.word("HANG"); o.flush(); _exit(3); }
        size_t sz = v->size();
        // later accesses either work (address inside live memory) or throw
        long accbad = 0;
        for (size_t i = 0; i < sz + 2; ++i) {
            try { int* e = &v->at(i); bool inside = false;
                  for (auto& al : g_allocs) if (al.live && (char*)e >= al.p && (char*)(e + 1) <= al.p + al.bytes) inside = true;
                  if (!inside) accbad++; }
            catch (...) {}
        }
        // every index below size() must have storage: operator[] does not check (address computation only, nothing is dereferenced here)
        long nostore = 0;
        for (size_t i = 0; i < sz; ++i) {
            int* e = &(*v)[i]; bool inside = false;
            for (auto& al : g_allocs) if (al.live && (char*)e >= al.p && (char*)(e + 1) <= al.p + al.bytes) inside = true;
            if (!inside) nostore++;
        }
        o.word("ACCBAD"); o.put(accbad); o.word("NOSTORE"); o.put(nostore);
        // the vector must remain destructible
        delete v;
        long live = 0; for (auto& a : g_allocs) if (a.live) live++;
        o.word("LEAK"); o.put(live); o.word("SIZE"); o.put_u64(sz);
        o.flush();
    }
    return 0;
}
