// C04 driver (real threads, real library).
//   wide NFILL DELAY_US : the directed wide-window replay of DESIGN.md 8(a): a context is bound beneath ctx2 by
//                         another thread while a cancellation of ctx2's parent is propagating
//   rand SEED           : random context trees over several threads, concurrent cancels/binds; oracle at quiescence
#include "common.h"
#include <random>
#include <memory>
#include <functional>
#include "oneapi/tbb/task_group.h"
#include "oneapi/tbb/parallel_for.h"
#include "oneapi/tbb/global_control.h"
using namespace vh;

static void bind_here(tbb::task_group_context& c) {     // binds c beneath the context of the task we are running in
    tbb::parallel_for(tbb::blocked_range<int>(0, 1), [](const tbb::blocked_range<int>&) {}, tbb::simple_partitioner(), c);
}

static int do_wide(long nfill, long delay_us) {
    std::atomic<int> cancel_started{0}, kid_result{-1}, x_ready{0}, parent_seen{-1};
    tbb::task_group_context ctx1(tbb::task_group_context::isolated);
    tbb::task_group tg1(ctx1);
    bool ctx2_cancelled = false;
    tg1.run_and_wait([&] {
        tbb::task_group_context ctx2;                 // bound beneath ctx1, registered in the main thread's list
        tbb::task_group tg2(ctx2);
        bind_here(ctx2);
        // fillers: contexts beneath an unrelated isolated root, registered in the main thread's list in front of ctx2
        tbb::task_group_context rootF(tbb::task_group_context::isolated);
        tbb::task_group tgF(rootF);
        std::vector<std::unique_ptr<tbb::task_group_context>> fillers;
        tgF.run_and_wait([&] {
            fillers.reserve(nfill);
            for (long i = 0; i < nfill; ++i) { fillers.emplace_back(new tbb::task_group_context); bind_here(*fillers.back()); }
        });
        std::thread X([&] {                            // binds `kid` beneath ctx2 from another thread
            tg2.run_and_wait([&] {
                x_ready = 1;
                while (!cancel_started.load()) std::this_thread::yield();
                std::this_thread::sleep_for(std::chrono::microseconds(delay_us));
                tbb::task_group_context kid;
                bind_here(kid);
                // wait until the canceller is done, then read the verdict
                while (cancel_started.load() != 2) std::this_thread::yield();
                kid_result = kid.is_group_execution_cancelled() ? 1 : 0;
                parent_seen = ctx2.is_group_execution_cancelled() ? 1 : 0;
            });
        });
        while (!x_ready.load()) std::this_thread::yield();
        std::thread C([&] { cancel_started = 1; ctx1.cancel_group_execution(); cancel_started = 2; });
        C.join(); X.join();
        ctx2_cancelled = ctx2.is_group_execution_cancelled();
        fillers.clear();
    });
    (void)ctx2_cancelled;
    std::printf("KID %d PARENT %d\n", kid_result.load(), parent_seen.load());
    return 0;
}

// random trees: T threads, each inside its own level-1 group beneath a shared root, keep binding leaf contexts (and nested
// groups) while one thread cancels the root or a sibling's level-1 context.  Verdict per thread at quiescence (before any
// task_group::wait of an enclosing group resets its context): every leaf bound beneath a cancelled context is cancelled.
static int do_rand(unsigned seed) {
    std::mt19937 rng(seed);
    int T = 2 + rng() % 3; int depth = 1 + rng() % 3;
    tbb::task_group_context root(tbb::task_group_context::isolated);
    tbb::task_group tgroot(root);
    std::atomic<int> bad{0}, go{0}, spurious{0}, won{0};
    tbb::task_group_context unrelated(tbb::task_group_context::isolated);
    tgroot.run_and_wait([&] {
        std::vector<std::unique_ptr<tbb::task_group_context>> level1; std::vector<std::unique_ptr<tbb::task_group>> tgs;
        for (int t = 0; t < T; ++t) { level1.emplace_back(new tbb::task_group_context); bind_here(*level1.back()); tgs.emplace_back(new tbb::task_group(*level1.back())); }
        int canceller = rng() % T; int victim = rng() % 2;   // 0: cancel the root, 1: cancel the next thread's level-1 context
        int victim_thread = (canceller + 1) % T;
        std::vector<std::thread> th;
        for (int t = 0; t < T; ++t) th.emplace_back([&, t] {
            std::mt19937 r(seed * 31 + t);
            tgs[t]->run_and_wait([&] {
                go++; while (go.load() < T) std::this_thread::yield();
                std::vector<std::unique_ptr<tbb::task_group_context>> inner;    // outlive the leaves bound beneath them (API contract)
                std::vector<std::unique_ptr<tbb::task_group_context>> leaves;
                std::function<void(int)> nest = [&](int d) {
                    for (int k = 0; k < 3; ++k) {
                        if (t == canceller && d == 0 && k == 1) {
                            bool w = victim == 0 ? root.cancel_group_execution() : level1[victim_thread]->cancel_group_execution();
                            if (w) won = 1;
                        }
                        if (d + 1 < depth) {
                            inner.emplace_back(new tbb::task_group_context); tbb::task_group g(*inner.back());
                            g.run_and_wait([&] { nest(d + 1); });     // wait() resets the inner context afterwards; it stays alive
                        } else { leaves.emplace_back(new tbb::task_group_context); bind_here(*leaves.back()); }
                        for (unsigned s = 0; s < (r() % 200); ++s) std::this_thread::yield();
                    }
                };
                nest(0);
                go++; while (go.load() < 2 * T) std::this_thread::yield();      // everybody quiescent, nothing reset yet at level 1
                bool beneath = won.load() && (victim == 0 || t == victim_thread);
                if (beneath) for (auto& c : leaves) if (!c->is_group_execution_cancelled()) bad++;
                if (!won.load()) for (auto& c : leaves) if (c->is_group_execution_cancelled()) spurious++;
                if (won.load() && victim == 1 && t != victim_thread) for (auto& c : leaves) if (c->is_group_execution_cancelled()) spurious++;
                go++; while (go.load() < 3 * T) std::this_thread::yield();      // keep the leaves alive until everybody has checked
            });
        });
        for (auto& x : th) x.join();
        if (unrelated.is_group_execution_cancelled()) spurious++;
        tgs.clear();
    });
    std::printf("BAD %d SPURIOUS %d\n", bad.load(), spurious.load());
    return 0;
}

// race: several threads call cancel_group_execution on the same not-yet-cancelled context at once (also through its task_group): exactly one gets true;
// the context stays cancelled until reset(); an isolated sibling and the parent are not touched.
static int do_race(unsigned seed, int rounds) {
    std::mt19937 rng(seed);
    long notone = 0, notsticky = 0, spurious = 0;
    for (int r = 0; r < rounds; ++r) {
        int K = 2 + rng() % 5;
        tbb::task_group_context parent(tbb::task_group_context::isolated);
        tbb::task_group tgp(parent);
        tgp.run_and_wait([&] {
            tbb::task_group_context ctx, sibling, iso(tbb::task_group_context::isolated);
            bind_here(ctx); bind_here(sibling); bind_here(iso);
            std::atomic<int> go{0}, trues{0};
            std::vector<std::thread> th;
            for (int t = 0; t < K; ++t) th.emplace_back([&] { go++; while (go.load() < K) {} if (ctx.cancel_group_execution()) trues++; });
            for (auto& x : th) x.join();
            if (trues.load() != 1) notone++;
            if (!ctx.is_group_execution_cancelled()) notsticky++;
            if (ctx.cancel_group_execution()) notone++;                       // already cancelled: nobody gets true any more
            if (sibling.is_group_execution_cancelled() || iso.is_group_execution_cancelled() || parent.is_group_execution_cancelled()) spurious++;
            ctx.reset(); if (ctx.is_group_execution_cancelled()) notsticky++;
            if (!ctx.cancel_group_execution()) notone++;                      // after reset it is "not yet cancelled" again
        });
    }
    std::printf("BAD %ld SPURIOUS %ld STICKY %ld\n", notone, spurious, notsticky);
    return 0;
}

// life: a context tree lives through several rounds of use.  Contexts stay bound while an ancestor is reset (explicitly, or by task_group::wait /
// run_and_wait completing), is cancelled again, is reset again ...: after every cancel_group_execution of an ancestor that returned, every context still
// bound beneath it is cancelled; after reset() of the ancestor the ancestor itself is not cancelled.   output: MISSED a (bound descendant not cancelled) RESETBAD b
static int do_life(unsigned seed, int rounds) {
    std::mt19937 rng(seed);
    long missed = 0, resetbad = 0;
    for (int r = 0; r < rounds; ++r) {
        // A: explicit contexts, depth 1-3 beneath `top`
        {
            tbb::task_group_context top(tbb::task_group_context::isolated);
            int depth = 1 + rng() % 3; int cycles = 1 + rng() % 3;
            std::vector<std::unique_ptr<tbb::task_group_context>> chain;
            for (int d = 0; d < depth; ++d) chain.emplace_back(new tbb::task_group_context());
            // bind chain[0] beneath top, chain[1] beneath chain[0], ...
            std::function<void(int)> bind_level = [&](int d) {
                if (d == depth) return;
                tbb::task_group_context& parent = d == 0 ? top : *chain[d - 1];
                tbb::parallel_for(0, 1, [&](int) { bind_here(*chain[d]); bind_level(d + 1); }, parent);
            };
            bind_level(0);
            for (int cyc = 0; cyc < cycles; ++cyc) {
                int which = rng() % (depth + 1);                                  // cancel top or one of the chain
                tbb::task_group_context& anc = which == 0 ? top : *chain[which - 1];
                if (cyc > 0 || rng() % 2) { for (int d = depth; d-- > 0;) chain[d]->reset(); top.reset(); }   // nothing runs in the groups now: reset is allowed
                if (top.is_group_execution_cancelled()) resetbad++;
                anc.cancel_group_execution();
                for (int d = which; d < depth; ++d) if (!chain[d]->is_group_execution_cancelled()) missed++;
            }
        }
        // B: a task_group whose wait() resets its context between rounds, with a long-lived child context bound beneath it in round one
        {
            tbb::task_group tg; tbb::task_group_context child; std::atomic<long> iters{0};
            tg.run_and_wait([&] { bind_here(child); });
            for (int round = 0; round < 2; ++round) {
                std::atomic<int> started{0};
                // the body is run by the thread that waits for it (a task that is only spawned may stay unstolen until its owner waits: the main thread must not spin for it)
                std::thread runner([&] { tg.run_and_wait([&] { started = 1; tbb::parallel_for(0, 200000, [&](int) { iters++; for (volatile int k = 0; k < 50; ++k) {} }, child); }); });   // the wait resets tg's context
                while (!started.load()) std::this_thread::yield();
                tg.cancel();
                runner.join();
                if (!child.is_group_execution_cancelled()) missed++;
                child.reset();
            }
        }
    }
    std::printf("MISSED %ld RESETBAD %ld\n", missed, resetbad);
    return 0;
}

int main(int argc, char** argv) {
    std::string m = argc > 1 ? argv[1] : "";
    if (m == "wide") return do_wide(atol(argv[2]), atol(argv[3]));
    if (m == "rand") return do_rand((unsigned)atoi(argv[2]));
    if (m == "race") return do_race((unsigned)atoi(argv[2]), 300);
    if (m == "life") return do_life((unsigned)atoi(argv[2]), atoi(argv[3]));
    return 2;
}
