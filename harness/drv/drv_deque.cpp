// C01 driver (gate): the real r1::arena_slot (src/tbb/arena_slot.cpp compiled here under the atomic prelude).
//   gate : nthreads, owner script length, (op arg)*  [1 t = spawn task t with isolation tag t/100 | 2 iso = get_task with isolation tag iso], per thief its number of steals, -1, schedule
//          output: events on head (1) / tail (2) / task_pool (3) as "tid var kind order before after ok", notes "tid 0 100+op 0 result 0 1",
//          then -7 head tail lock finished live(non-null entries in [head,tail))
//   mt   : see drv_sched.cpp for the scheduler-level oracle
#include "drv/common.h"
#include "gate/gate.h"
#include "tbb/arena_slot.cpp"
#include "tbb/arena.h"
#include "tbb/thread_data.h"
#include "tbb/task_dispatcher.h"
using namespace vh;
using namespace tbb::detail;

struct TTask : d1::task { long id; explicit TTask(long i) : id(i) {} d1::task* execute(d1::execution_data&) override { return nullptr; } d1::task* cancel(d1::execution_data&) override { return nullptr; } };

static long canon_lock(unsigned long long v) { return v == 0 ? 0 : (v == ~0ull ? 1 : 2); }

int main(int argc, char** argv) {
    std::vector<i128> c;
    while (read_case(c)) {
        gate::reset();
        alignas(128) static char slot_mem[sizeof(r1::arena_slot) + 256];
        std::memset(slot_mem, 0, sizeof slot_mem);
        r1::arena_slot* slot = new (slot_mem) r1::arena_slot;
        slot->task_pool.store(nullptr, std::memory_order_relaxed); slot->head.store(0, std::memory_order_relaxed); slot->tail.store(0, std::memory_order_relaxed);
        slot->my_task_pool_size = 0; slot->task_pool_ptr = nullptr;
        gate::reg_var(&slot->head, 1); gate::reg_var(&slot->tail, 2); gate::reg_var(&slot->task_pool, 3);
        size_t p = 0; int nt = (int)c[p++]; int len = (int)c[p++];
        std::vector<std::pair<int, long>> owner; for (int k = 0; k < len; ++k) { int op = (int)c[p++]; long a = (long)c[p++]; owner.push_back({op, a}); }
        std::vector<int> steals; for (int t = 1; t < nt; ++t) steals.push_back((int)c[p++]);
        p++;
        std::vector<int> sched; for (; p < c.size(); ++p) sched.push_back((int)c[p]);
        // get_task with skipped tasks calls ed.task_disp->m_thread_data->my_arena->advertise_new_work<wakeup>(): give it a zeroed arena
        // whose pool state is already "full" (the call then returns after one load), reached through zeroed dispatcher / thread_data
        static std::vector<char> arena_mem(sizeof(r1::arena) + 4096), td_mem(sizeof(r1::thread_data) + 256), disp_mem(sizeof(r1::task_dispatcher) + 256);
        std::fill(arena_mem.begin(), arena_mem.end(), 0); std::fill(td_mem.begin(), td_mem.end(), 0); std::fill(disp_mem.begin(), disp_mem.end(), 0);
        r1::arena* fake_arena = reinterpret_cast<r1::arena*>(arena_mem.data() + 2048);
        fake_arena->my_pool_state.my_state.store(1, std::memory_order_relaxed);
        r1::thread_data* fake_td = reinterpret_cast<r1::thread_data*>(td_mem.data()); fake_td->my_arena = fake_arena;
        r1::task_dispatcher* fake_disp = reinterpret_cast<r1::task_dispatcher*>(disp_mem.data()); fake_disp->m_thread_data = fake_td;
        r1::execution_data_ext ed{}; ed.task_disp = fake_disp;
        std::vector<TTask*> tasks;
        gate::spawn([&] {
            for (auto& oa : owner) {
                if (oa.first == 1) { TTask* t = new TTask(oa.second); r1::task_accessor::isolation(*t) = (r1::isolation_type)(oa.second / 100); tasks.push_back(t); slot->spawn(*t); gate::note(1, 0); }
                else { long res = 0; if (slot->is_task_pool_published()) { d1::task* t = slot->get_task(ed, (r1::isolation_type)oa.second); res = t ? static_cast<TTask*>(t)->id : 0; } gate::note(2, res); }
            }
        });
        for (int n : steals) gate::spawn([&, n] { for (int k = 0; k < n; ++k) { d1::task* t = slot->steal_task(*fake_arena, r1::no_isolation, 1); gate::note(3, t ? static_cast<TTask*>(t)->id : 0); } });
        bool ok = gate::run(sched, 4000);
        Out o;
        for (auto& e : gate::trace) {
            if (e.kind == 199) continue;
            if (e.kind >= 100) { o.put(e.tid); o.put(0); o.put(e.kind); o.put(0); o.put((long)e.before); o.put(0); o.put(1); continue; }
            if (e.var < 1 || e.var > 3) continue;
            o.put(e.tid); o.put(e.var); o.put(e.kind); o.put(e.order);
            if (e.var == 3) { o.put(canon_lock(e.before)); o.put(canon_lock(e.after)); } else { o.put((long)e.before); o.put((long)e.after); }
            o.put(e.ok);
        }
        o.put(-7); o.put((long)slot->head.load(std::memory_order_relaxed)); o.put((long)slot->tail.load(std::memory_order_relaxed));
        o.put(canon_lock((unsigned long long)slot->task_pool.load(std::memory_order_relaxed))); o.put(ok ? 1 : 0);
        { long live = 0; long h = (long)slot->head.load(std::memory_order_relaxed), t = (long)slot->tail.load(std::memory_order_relaxed);
          for (long i = h; i < t && slot->task_pool_ptr; ++i) if (slot->task_pool_ptr[i]) live++; o.put(live); }      // tasks still in the deque (holes excluded)
        if (!ok) { o.word("HANG"); o.flush(); _exit(3); }
        o.flush();
        slot->free_task_pool();
        for (auto* t : tasks) delete t;
    }
    return 0;
}
