// C07 driver.
//   buf  : op sequences on the real r1::input_buffer (parallel_pipeline.cpp is #included; fake spawner)
//   pipe : real parallel_pipeline with real threads; logging filters; prints the oracle verdicts
#include "common.h"
#include <mutex>
#include <random>
#include "tbb/parallel_pipeline.cpp"
#include "oneapi/tbb/parallel_pipeline.h"
#include "oneapi/tbb/task_arena.h"
using namespace vh;
using namespace tbb::detail;

struct FakeSpawner { r1::task_info last; bool got = false; void spawn_stage_task(const r1::task_info& i, d1::execution_data&) { last = i; got = true; } };

static int do_buf() {
    std::vector<i128> c; Out o;
    while (read_case(c)) {
        r1::input_buffer* b = new r1::input_buffer(c[0] != 0);
        for (size_t i = 1; i + 3 < c.size(); i += 4) {
            if (c[i] == 1) {
                r1::task_info info; info.my_object = (void*)(uintptr_t)c[i + 1]; info.my_token = (r1::Token)c[i + 2]; info.my_token_ready = c[i + 3] != 0;
                bool parked = b->try_put_token(info);
                o.put(parked ? 1 : 0); o.put_u64(info.my_token);
            } else {
                FakeSpawner sp; d1::execution_data* ed = nullptr;
                b->try_to_spawn_task_for_next_token(sp, *ed);
                if (sp.got) { o.put_u64((uintptr_t)sp.last.my_object); o.put_u64(sp.last.my_token); } else { o.put(-1); o.put(-1); }
            }
        }
        o.put(-7); o.put_u64(b->array_size); o.put_u64(b->low_token); o.put_u64(b->high_token);
        o.flush();
        delete b;
    }
    return 0;
}

// pipe: seed P max_tokens nitems nfilters (mode)*   mode: 0 parallel, 1 serial_out_of_order, 2 serial_in_order
struct Log {
    std::mutex m;
    int nf; long nitems;
    std::vector<std::vector<long>> order;          // per filter: item ids in processing order (serial filters)
    std::vector<std::vector<int>> visits;          // [filter][item]
    std::vector<std::atomic<int>> inside;          // per filter: invocations in progress
    std::atomic<long> live{0}, maxlive{0}, viol_serial{0}, viol_live{0};
    Log(int nf_, long n) : nf(nf_), nitems(n), order(nf_), visits(nf_, std::vector<int>(n + 1, 0)), inside(nf_) { for (auto& x : inside) x = 0; }
};

static void jitter(std::mt19937& r) { int k = r() % 4; if (k == 0) std::this_thread::yield(); else { volatile unsigned x = 0; for (unsigned i = 0; i < (r() % 3000); ++i) x += i; } }

static int do_pipe() {
    std::vector<i128> c; Out o; Watchdog wd(60.0);
    while (read_case(c)) {
        unsigned seed = (unsigned)c[0]; int P = (int)c[1]; size_t maxtok = (size_t)c[2]; long nitems = (long)c[3]; int nf = (int)c[4];
        std::vector<int> modes; for (int i = 0; i < nf; ++i) modes.push_back((int)c[5 + i]);
        Log lg(nf, nitems);
        std::atomic<long> next{0};
        auto mode_of = [&](int m) { return m == 0 ? tbb::filter_mode::parallel : m == 1 ? tbb::filter_mode::serial_out_of_order : tbb::filter_mode::serial_in_order; };
        auto enter = [&](int f, long item, unsigned s) {
            int in = ++lg.inside[f];
            if (modes[f] != 0 && in > 1) lg.viol_serial++;
            { std::lock_guard<std::mutex> l(lg.m); lg.order[f].push_back(item); if (item >= 1 && item <= nitems) lg.visits[f][item]++; }
            std::mt19937 r(seed * 7919u + (unsigned)item * 31u + (unsigned)f + s); jitter(r);
            --lg.inside[f];
        };
        // first filter produces items 1..nitems
        tbb::filter<void, long> chain = tbb::make_filter<void, long>(mode_of(modes[0]), [&](tbb::flow_control& fc) -> long {
            long id = ++next;
            if (id > nitems) { fc.stop(); return 0; }
            long lv = ++lg.live; long ml = lg.maxlive.load(); while (lv > ml && !lg.maxlive.compare_exchange_weak(ml, lv)) {}
            if ((size_t)lv > maxtok) lg.viol_live++;
            enter(0, id, 1);
            if (nf == 1) --lg.live;
            return id; });
        tbb::filter<void, void> whole;
        if (nf == 1) {
            whole = tbb::make_filter<void, void>(mode_of(modes[0]), [&](tbb::flow_control& fc) {
                long id = ++next; if (id > nitems) { fc.stop(); return; }
                long lv = ++lg.live; long ml = lg.maxlive.load(); while (lv > ml && !lg.maxlive.compare_exchange_weak(ml, lv)) {}
                if ((size_t)lv > maxtok) lg.viol_live++;
                enter(0, id, 1); --lg.live; });
        } else {
            for (int f = 1; f + 1 < nf; ++f)
                chain = chain & tbb::make_filter<long, long>(mode_of(modes[f]), [&, f](long id) -> long { enter(f, id, 2); return id; });
            whole = chain & tbb::make_filter<long, void>(mode_of(modes[nf - 1]), [&, nf](long id) { enter(nf - 1, id, 3); --lg.live; });
        }
        wd.arm(&o);
        tbb::task_arena arena(P);
        arena.execute([&] { tbb::parallel_pipeline(maxtok, whole); });
        wd.disarm();
        // ---- oracle
        long missing = 0, dup = 0, order_bad = 0;
        for (int f = 0; f < nf; ++f) for (long it = 1; it <= nitems; ++it) { if (lg.visits[f][it] == 0) missing++; if (lg.visits[f][it] > 1) dup++; }
        int first_ord = -1; for (int f = 0; f < nf; ++f) if (modes[f] == 2) { first_ord = f; break; }
        if (first_ord >= 0) for (int f = first_ord + 1; f < nf; ++f) if (modes[f] == 2 && lg.order[f] != lg.order[first_ord]) order_bad++;
        long still_live = lg.live.load();
        o.word("MISSING"); o.put(missing); o.word("DUP"); o.put(dup); o.word("ORDER"); o.put(order_bad); o.word("SERIAL"); o.put(lg.viol_serial.load());
        o.word("LIVE"); o.put(lg.viol_live.load()); o.word("MAXLIVE"); o.put(lg.maxlive.load()); o.word("LEFT"); o.put(still_live);
        o.flush();
    }
    return 0;
}

int main(int argc, char** argv) {
    std::string m = argc > 1 ? argv[1] : "";
    if (m == "buf") return do_buf();
    if (m == "pipe") return do_pipe();
    return 2;
}
