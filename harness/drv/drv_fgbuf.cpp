// C15 driver: flow-graph buffering nodes driven sequentially through their public sender/receiver interface.
//   seq : cases "kind (op v)*"  kind 0 buffer_node / 1 queue_node / 2 sequencer_node (tag = value) / 3 priority_queue_node
//         op 1 try_put(v) | 2 try_get | 3 try_reserve | 4 try_release | 5 try_consume | 9 white-box dump (kinds 0-2)
//         after every op the graph is drained (wait_for_all) so the forwarder task of the node has run
//   mt  : real threads on queue/sequencer/limiter/join graphs (oracle) — see tools/props/c15.py
#include "common.h"
#include <deque>
#include <memory>
#include <mutex>
#include <algorithm>
#include <map>
#include <random>
#include "oneapi/tbb/flow_graph.h"
#include "oneapi/tbb/global_control.h"
using namespace vh;
using namespace tbb::flow;

template <class N> static void dump(N& n, Out& o) {
    auto& b = (tbb::detail::d2::reservable_item_buffer<long, tbb::cache_aligned_allocator<long>>&)n;
    o.put_u64(b.my_head); o.put_u64(b.my_tail); o.put_u64(b.my_array_size); o.put(b.my_reserved ? 1 : 0);
    for (size_t i = b.my_head; i < b.my_tail; ++i) { auto& e = b.element(i); o.put((int)e.state); o.put(e.state == 0 ? 0 : e.item); }
}

template <class N> static void seq_run(graph& g, N& n, std::vector<i128>& c, Out& o, bool can_dump) {
    for (size_t i = 1; i + 1 < c.size(); i += 2) {
        int op = (int)c[i]; long v = (long)c[i + 1]; long out = -1;
        switch (op) {
        case 1: o.put(n.try_put(v) ? 1 : 0); break;
        case 2: o.put(n.try_get(out) ? out : -1); break;
        case 3: o.put(n.try_reserve(out) ? out : -1); break;
        case 4: o.put(n.try_release() ? 1 : 0); break;
        case 5: o.put(n.try_consume() ? 1 : 0); break;
        case 9: if (can_dump) dump(n, o); break;
        }
        g.wait_for_all();
    }
}

// ---- real-thread graphs ----
static int mt_queue(int P, unsigned seed, int n) {      // several producers -> queue_node -> serial function_node: per-producer order kept, nothing lost/duplicated
    tbb::global_control gc(tbb::global_control::max_allowed_parallelism, P);
    graph g; queue_node<long> q(g);
    std::vector<long> got; std::mutex m;
    function_node<long, continue_msg, rejecting> f(g, serial, [&](long v) { std::lock_guard<std::mutex> l(m); got.push_back(v); return continue_msg(); });
    make_edge(q, f);
    std::vector<std::thread> th; int T = 1 + seed % 3;
    for (int t = 0; t < T; ++t) th.emplace_back([&, t] { for (int i = 0; i < n; ++i) q.try_put(((long)t << 32) | i); });
    for (auto& x : th) x.join();
    g.wait_for_all();
    long bad_order = 0, dup = 0; std::map<long, long> last; std::map<long, int> seen;
    for (long v : got) { long p = v >> 32, i = v & 0xffffffff; if (last.count(p) && last[p] >= i) bad_order++; last[p] = i; if (seen[v]++) dup++; }
    std::printf("ORDER %ld DUP %ld LOST %ld\n", bad_order, dup, (long)T * n - (long)got.size());
    return 0;
}
static int mt_sequencer(int P, unsigned seed, int n) {  // shuffled tags from several threads -> sequencer -> serial consumer: exactly 0..n-1 in order
    tbb::global_control gc(tbb::global_control::max_allowed_parallelism, P);
    graph g; sequencer_node<long> s(g, [](const long& v) { return (size_t)v; });
    std::vector<long> got; std::mutex m;
    function_node<long, continue_msg, rejecting> f(g, serial, [&](long v) { std::lock_guard<std::mutex> l(m); got.push_back(v); return continue_msg(); });
    make_edge(s, f);
    std::vector<long> tags(n); for (int i = 0; i < n; ++i) tags[i] = i;
    std::mt19937 r(seed); std::shuffle(tags.begin(), tags.end(), r);
    int T = 1 + seed % 4; std::vector<std::thread> th; std::atomic<long> dup_accepted{0};
    for (int t = 0; t < T; ++t) th.emplace_back([&, t] { for (int i = t; i < n; i += T) { s.try_put(tags[i]); if (i % 7 == 0) { if (s.try_put(tags[i])) dup_accepted++; } } });
    for (auto& x : th) x.join();
    g.wait_for_all();
    long bad = 0; for (size_t i = 0; i < got.size(); ++i) if (got[i] != (long)i) bad++;
    std::printf("ORDER %ld COUNT %ld DUPACCEPTED %ld\n", bad, (long)got.size() - n, dup_accepted.load());
    return 0;
}
static int mt_limiter(int P, unsigned seed, int n) {    // limiter(threshold) -> slow body -> decrement: never more than threshold in flight, nothing lost
    tbb::global_control gc(tbb::global_control::max_allowed_parallelism, P);
    size_t thr = 1 + seed % 4;
    graph g; queue_node<long> q(g); limiter_node<long> lim(g, thr);
    std::atomic<long> inflight{0}, over{0}, done{0};
    function_node<long, continue_msg> f(g, unlimited, [&](long) { long x = ++inflight; if (x > (long)thr) over++; for (volatile int k = 0; k < 2000; ++k) {} --inflight; done++; return continue_msg(); });
    make_edge(q, lim); make_edge(lim, f); make_edge(f, lim.decrementer());
    for (int i = 0; i < n; ++i) q.try_put(i);
    g.wait_for_all();
    std::printf("OVER %ld LOST %ld\n", over.load(), (long)n - done.load());
    return 0;
}
// limiter_node with an INTEGRAL decrementer: decrements of 1..threshold+1 arrive while a put is in flight (sent by the successor's body itself, i.e. from
// inside limiter.try_put, or by a second thread while the putter is held inside the successor) or between puts.  Whatever is credited, the number of
// messages forwarded minus ALL decrements ever requested can never exceed the threshold: OVERSHOOT counts configurations where it does.
static int lim_dec(int P, unsigned seed) {
    tbb::global_control gc(tbb::global_control::max_allowed_parallelism, P);
    long overshoot = 0, configs = 0, negative = 0;
    for (int thr = 1; thr <= 6; ++thr) for (int pre = 0; pre <= thr; ++pre) for (int delta = 1; delta <= thr + 1; ++delta) for (int how = 0; how < 3; ++how) {
        configs++;
        graph g;
        limiter_node<int, int> lim(g, (size_t)thr);
        std::atomic<long> forwarded{0}, requested{0}; std::atomic<int> trigger{-1}; std::atomic<bool> inside{false}, release{true};
        function_node<int, continue_msg, lightweight> succ(g, unlimited, [&](int id) -> continue_msg {
            forwarded++;
            if (id == trigger.load()) {
                if (how == 0) { requested += delta; lim.decrementer().try_put(delta); }           // from inside the put
                else if (how == 1) { inside = true; while (!release.load()) std::this_thread::yield(); }   // held: another thread decrements meanwhile
            }
            return continue_msg(); });
        make_edge(lim, succ);
        int id = 0;
        for (int i = 0; i < pre; ++i) lim.try_put(id++);                 // pre messages outstanding (pre <= threshold: all accepted)
        if (pre < thr) {
            trigger = id;
            if (how == 1) {
                release = false; inside = false;
                std::thread other([&] { while (!inside.load()) std::this_thread::yield(); requested += delta; lim.decrementer().try_put(delta); release = true; });
                lim.try_put(id++); other.join();
            } else if (how == 0) lim.try_put(id++);
            else { requested += delta; lim.decrementer().try_put(delta); lim.try_put(id++); }          // between puts
        } else { requested += delta; lim.decrementer().try_put(delta); }
        for (int i = 0; i < 3 * thr + 3; ++i) lim.try_put(id++);         // fill up again: accepted only while below the threshold
        g.wait_for_all();
        long out = forwarded.load() - requested.load();
        if (out > thr) overshoot++;
    }
    std::printf("OVERSHOOT %ld NEG %ld CONFIGS %ld\n", overshoot, negative, configs - configs);
    return 0;
}
// overwrite_node / write_once_node / broadcast_node / split_node / indexer_node: latest / first value to every present and FUTURE successor,
// every message to all successors, every tuple element / tagged message to the matching port.  Sequential part plus puts from several threads.
static int simple_nodes(int P, unsigned seed, int n) {
    tbb::global_control gc(tbb::global_control::max_allowed_parallelism, P);
    std::mt19937 r(seed);
    long ow = 0, wo = 0, bc = 0, sp = 0, ix = 0;
    auto drain = [](queue_node<long>& q) { std::vector<long> v; long x; while (q.try_get(x)) v.push_back(x); return v; };
    for (int round = 0; round < n; ++round) {
        {   // overwrite_node
            graph g; overwrite_node<long> o(g); queue_node<long> s1(g), s2(g), s3(g);
            if (o.is_valid()) ow++;
            make_edge(o, s1);
            int k = 1 + r() % 5; std::vector<long> vals; for (int i = 0; i < k; ++i) { vals.push_back(100 + r() % 1000); o.try_put(vals.back()); }
            g.wait_for_all();
            make_edge(o, s2);                       // a future successor gets the latest value
            g.wait_for_all();
            long cur = -1; if (!o.try_get(cur) || cur != vals.back() || !o.is_valid()) ow++;
            if (drain(s1) != vals) ow++;
            auto v2 = drain(s2); if (v2.size() != 1 || v2[0] != vals.back()) ow++;
            o.clear(); if (o.is_valid() || o.try_get(cur)) ow++;
            make_edge(o, s3); g.wait_for_all(); if (!drain(s3).empty()) ow++;          // nothing to deliver after clear()
            o.try_put(7); g.wait_for_all(); auto v3 = drain(s3); if (v3.size() != 1 || v3[0] != 7) ow++;
        }
        {   // write_once_node
            graph g; write_once_node<long> w(g); queue_node<long> s1(g), s2(g);
            make_edge(w, s1);
            long first = 200 + r() % 1000; bool a = w.try_put(first); bool b = w.try_put(first + 1); bool c2 = w.try_put(first + 2);
            g.wait_for_all();
            if (!a || b || c2) wo++;
            make_edge(w, s2); g.wait_for_all();
            long cur = -1; if (!w.try_get(cur) || cur != first) wo++;
            auto v1 = drain(s1), v2 = drain(s2);
            if (v1.size() != 1 || v1[0] != first || v2.size() != 1 || v2[0] != first) wo++;
            w.clear(); if (!w.try_put(5)) wo++; g.wait_for_all(); if (!w.try_get(cur) || cur != 5) wo++;
        }
        {   // broadcast_node with several putting threads
            graph g; broadcast_node<long> b(g); const int S = 1 + r() % 4; std::vector<std::unique_ptr<queue_node<long>>> qs;
            for (int i = 0; i < S; ++i) { qs.emplace_back(new queue_node<long>(g)); make_edge(b, *qs.back()); }
            int T = 1 + r() % 3, per = 1 + r() % 40; std::vector<std::thread> th;
            for (int t = 0; t < T; ++t) th.emplace_back([&, t] { for (int i = 0; i < per; ++i) b.try_put(t * 1000 + i); });
            for (auto& x : th) x.join();
            g.wait_for_all();
            for (int i = 0; i < S; ++i) {
                auto v = drain(*qs[i]); if ((int)v.size() != T * per) { bc++; continue; }
                std::vector<long> next(T, 0);                                           // per producer in order, each exactly once
                for (long x : v) { int t = (int)(x / 1000); long j = x % 1000; if (t < 0 || t >= T || j != next[t]) { bc++; break; } next[t]++; }
            }
        }
        {   // split_node
            graph g; split_node<std::tuple<long, long>> s(g); queue_node<long> q0(g), q1(g);
            make_edge(output_port<0>(s), q0); make_edge(output_port<1>(s), q1);
            int k = 1 + r() % 20; std::vector<long> a, b;
            for (int i = 0; i < k; ++i) { a.push_back(r() % 1000); b.push_back(5000 + r() % 1000); s.try_put(std::make_tuple(a.back(), b.back())); }
            g.wait_for_all();
            if (drain(q0) != a || drain(q1) != b) sp++;
        }
        {   // indexer_node
            graph g; indexer_node<long, int> x(g); typedef indexer_node<long, int>::output_type msg_t;
            std::vector<std::pair<int, long>> got; std::mutex m;
            function_node<msg_t, continue_msg> f(g, serial, [&](const msg_t& mm) { std::lock_guard<std::mutex> l(m);
                if (mm.tag() == 0) got.push_back({0, cast_to<long>(mm)}); else got.push_back({1, (long)cast_to<int>(mm)}); return continue_msg(); });
            make_edge(x, f);
            int k = 1 + r() % 20; std::vector<std::pair<int, long>> want;
            for (int i = 0; i < k; ++i) { if (r() % 2) { long v = r() % 1000; input_port<0>(x).try_put(v); want.push_back({0, v}); } else { int v = (int)(r() % 1000); input_port<1>(x).try_put(v); want.push_back({1, v}); } }
            g.wait_for_all();
            if (got != want) ix++;
        }
    }
    std::printf("OVERWRITE %ld WRITEONCE %ld BROADCAST %ld SPLIT %ld INDEXER %ld\n", ow, wo, bc, sp, ix);
    return 0;
}
// limseq: the counters of limiter_node<int,int> driven op by op and dumped after every op of LimModel.  The successor is a scripted receiver: while the
// limiter's put is inside it, it performs the following script ops (decrements sent to the limiter's decrementer) until it meets op 2 (accept) or
// op 3 (reject).  Script ops at top level: 1 = put (the ops up to the next 2/3 happen inside the put, if it is admitted), 4 d = decrement.
// output per model op: result, my_count, my_tries, my_future_decrement.
struct ScriptRecv : tbb::flow::receiver<int> {
    typedef tbb::flow::limiter_node<int, int> lim_t;
    tbb::flow::graph& g; lim_t* lim = nullptr; std::vector<i128>* script = nullptr; size_t* pos = nullptr; Out* out = nullptr; bool rejected_edge = false;
    explicit ScriptRecv(tbb::flow::graph& g_) : g(g_) {}
    void dump(long res) { out->put(res); out->put((long)lim->my_count); out->put((long)lim->my_tries); out->put((long)lim->my_future_decrement); }
    tbb::detail::d2::graph_task* try_put_task(const int&) override {
        dump(1);                                                        // op 1 admitted: my_tries already counts this put
        for (;;) {
            if (*pos + 1 >= script->size()) return tbb::detail::d2::SUCCESSFULLY_ENQUEUED;     // script ended inside a put: accept (not dumped)
            int op = (int)(*script)[*pos]; long d = (long)(*script)[*pos + 1]; *pos += 2;
            if (op == 4) { bool ok = d > 0; if (ok) lim->decrementer().try_put((int)d); dump(ok ? 1 : 0); }
            else if (op == 2) return tbb::detail::d2::SUCCESSFULLY_ENQUEUED;
            else if (op == 3) { rejected_edge = true; return nullptr; }
            else dump(0);                                               // a put inside a put is not part of the script language: counted as a no-op
        }
    }
    tbb::flow::graph& graph_reference() const override { return g; }
    bool register_predecessor(predecessor_type&) override { return true; }     // the limiter hands the edge over when we reject
    bool remove_predecessor(predecessor_type&) override { return true; }
};
static int lim_seq() {
    std::vector<i128> c; Out o; Watchdog wd(20.0);
    while (read_case(c)) {
        wd.arm(&o);
        tbb::flow::graph g; ScriptRecv::lim_t lim(g, (size_t)c[0]); ScriptRecv rc(g);
        size_t pos = 1; rc.lim = &lim; rc.script = &c; rc.pos = &pos; rc.out = &o;
        tbb::flow::make_edge(lim, rc);
        while (pos + 1 < c.size()) {
            int op = (int)c[pos]; long d = (long)c[pos + 1]; pos += 2;
            if (rc.rejected_edge) { tbb::flow::make_edge(lim, rc); rc.rejected_edge = false; }      // the rejection reversed the edge: put it back
            if (op == 1) {
                size_t before = pos; bool acc = lim.try_put(0);
                if (pos == before && !acc) rc.dump(0);                   // not admitted: the receiver was never called
                else { rc.dump(1); }                                     // the dump of the closing op 2 / 3 (counters after the put finished)
            } else if (op == 4) { bool ok = d > 0; if (ok) lim.decrementer().try_put((int)d); rc.dump(ok ? 1 : 0); }
            else rc.dump(0);                                             // op 2 / 3 without a put in flight
        }
        g.wait_for_all();
        wd.disarm(); o.flush();
    }
    return 0;
}
// mode "joinseq": join_node<tuple<long,...>, queueing> with 2 or 3 ports and a scripted successor, one thread; after every operation the graph is
// drained (wait_for_all) and the white-box state is dumped: result, ports_with_no_items, forwarder_busy, successor registered?, tuples delivered so far,
// size of every port's buffer.  Case: nports (op a v)*  with op 1 i v = put v on port i | 2 / 3 = the successor accepts / rejects from now on |
// 4 = the successor pulls (try_get) | 6 = the successor registers again.  At the end: -7 and every delivered tuple.   (model: JoinModel.run_join)
template <class Tuple> struct TupleRecv : tbb::flow::receiver<Tuple> {
    tbb::flow::graph& g; bool acc = true; bool registered = true; std::vector<Tuple> got;
    explicit TupleRecv(tbb::flow::graph& g_) : g(g_) {}
    tbb::detail::d2::graph_task* try_put_task(const Tuple& t) override {
        if (acc) { got.push_back(t); return tbb::detail::d2::SUCCESSFULLY_ENQUEUED; }
        return nullptr;
    }
    tbb::flow::graph& graph_reference() const override { return g; }
    bool register_predecessor(typename tbb::flow::receiver<Tuple>::predecessor_type&) override { registered = false; return true; }   // the join hands the edge over when we reject
    bool remove_predecessor(typename tbb::flow::receiver<Tuple>::predecessor_type&) override { return true; }
};
template <class Tuple, std::size_t... I> static void join_sizes(tbb::flow::join_node<Tuple, tbb::flow::queueing>& j, Out& o, std::index_sequence<I...>) {
    long sz[] = { (long)(tbb::flow::input_port<I>(j).my_tail - tbb::flow::input_port<I>(j).my_head)... };
    for (long x : sz) o.put(x);
}
template <class Tuple, std::size_t... I> static void join_put(tbb::flow::join_node<Tuple, tbb::flow::queueing>& j, int port, long v, std::index_sequence<I...>) {
    bool dummy[] = { (port == (int)I ? tbb::flow::input_port<I>(j).try_put(v) : false)... }; (void)dummy;
}
template <class Tuple, std::size_t... I> static void put_tuple(const Tuple& t, Out& o, std::index_sequence<I...>) { long v[] = { (long)std::get<I>(t)... }; for (long x : v) o.put(x); }
template <class Tuple> static void join_seq_case(std::vector<i128>& c, Out& o) {
    constexpr std::size_t N = std::tuple_size<Tuple>::value; auto idx = std::make_index_sequence<N>();
    tbb::flow::graph g; tbb::flow::join_node<Tuple, tbb::flow::queueing> j(g); TupleRecv<Tuple> rc(g);
    tbb::flow::make_edge(j, rc);
    for (size_t p = 1; p + 2 < c.size(); p += 3) {
        int op = (int)c[p]; long a = (long)c[p + 1], v = (long)c[p + 2]; long r = 0;
        if (op == 1) { if (a >= 0 && a < (long)N) { join_put(j, (int)a, v, idx); r = 1; } }
        else if (op == 2) { rc.acc = true; r = 1; }
        else if (op == 3) { rc.acc = false; r = 1; }
        else if (op == 4) { Tuple t; if (j.try_get(t)) { rc.got.push_back(t); r = 1; } }
        else if (op == 6) { if (!rc.registered) { tbb::flow::make_edge(j, rc); rc.registered = true; } r = 1; }
        g.wait_for_all();
        o.put(r); o.put((long)j.ports_with_no_items.load()); o.put(j.forwarder_busy ? 1 : 0); o.put(j.my_successors.empty() ? 0 : 1); o.put((long)rc.got.size());
        join_sizes(j, o, idx);
    }
    o.put(-7);
    for (auto& t : rc.got) put_tuple(t, o, idx);
}
static int join_seq() {
    std::vector<i128> c; Out o; Watchdog wd(20.0);
    while (read_case(c)) {
        wd.arm(&o);
        if (c[0] == 3) join_seq_case<std::tuple<long, long, long>>(c, o); else join_seq_case<std::tuple<long, long>>(c, o);
        wd.disarm(); o.flush();
    }
    return 0;
}
// mode "joinrseq": join_node<tuple<long,...>, reserving> fed by one queue_node per port, a scripted successor, one thread; drained after every operation.
// Dump per op: result, ports_with_no_inputs, forwarder_busy, successor registered?, tuples delivered, then per port: the sender's buffer size, sender registered in the
// port's predecessor cache?; plus RES n = reservations still pending on ports or senders (must be 0).  Case and ops as in joinseq (op 1 p v = put v into the sender of port p;
// op 4 = pull, only while the successor is not registered).   (model: JoinRModel.run_joinr)
template <class Tuple, std::size_t... I> static void joinr_dump(tbb::flow::join_node<Tuple, tbb::flow::reserving>& j, std::vector<std::unique_ptr<tbb::flow::queue_node<long>>>& qs, Out& o, long& pending, std::index_sequence<I...>) {
    long cachesz[] = { (long)(tbb::flow::input_port<I>(j).my_predecessors.empty() ? 0 : 1)... };
    long res[] = { (long)(tbb::flow::input_port<I>(j).reserved ? 1 : 0)... };
    for (std::size_t p = 0; p < sizeof...(I); ++p) { o.put((long)(qs[p]->my_tail - qs[p]->my_head)); o.put(cachesz[p]); if (res[p]) pending++; if (qs[p]->my_reserved) pending++; }
}
template <class Tuple, std::size_t... I> static void joinr_edges(tbb::flow::join_node<Tuple, tbb::flow::reserving>& j, std::vector<std::unique_ptr<tbb::flow::queue_node<long>>>& qs, std::index_sequence<I...>) {
    int dummy[] = { (tbb::flow::make_edge(*qs[I], tbb::flow::input_port<I>(j)), 0)... }; (void)dummy;
}
template <class Tuple> static void joinr_seq_case(std::vector<i128>& c, Out& o) {
    constexpr std::size_t N = std::tuple_size<Tuple>::value; auto idx = std::make_index_sequence<N>();
    tbb::flow::graph g; tbb::flow::join_node<Tuple, tbb::flow::reserving> j(g); TupleRecv<Tuple> rc(g);
    std::vector<std::unique_ptr<tbb::flow::queue_node<long>>> qs; for (std::size_t p = 0; p < N; ++p) qs.emplace_back(new tbb::flow::queue_node<long>(g));
    joinr_edges(j, qs, idx);
    tbb::flow::make_edge(j, rc);
    long pending = 0;
    for (size_t p = 1; p + 2 < c.size(); p += 3) {
        int op = (int)c[p]; long a = (long)c[p + 1], v = (long)c[p + 2]; long r = 0;
        if (op == 1) { if (a >= 0 && a < (long)N) { qs[(size_t)a]->try_put(v); r = 1; } }
        else if (op == 2) { rc.acc = true; r = 1; }
        else if (op == 3) { rc.acc = false; r = 1; }
        else if (op == 4) { if (!rc.registered) { Tuple t; if (j.try_get(t)) { rc.got.push_back(t); r = 1; } } }
        else if (op == 6) { if (!rc.registered) { tbb::flow::make_edge(j, rc); rc.registered = true; } r = 1; }
        g.wait_for_all();
        o.put(r); o.put((long)j.ports_with_no_inputs.load()); o.put(j.forwarder_busy ? 1 : 0); o.put(j.my_successors.empty() ? 0 : 1); o.put((long)rc.got.size());
        joinr_dump(j, qs, o, pending, idx);
    }
    o.put(-7);
    for (auto& t : rc.got) put_tuple(t, o, idx);
    o.put(-8); o.put(pending);
}
static int joinr_seq() {
    std::vector<i128> c; Out o; Watchdog wd(20.0);
    while (read_case(c)) {
        wd.arm(&o);
        if (c[0] == 3) joinr_seq_case<std::tuple<long, long, long>>(c, o); else joinr_seq_case<std::tuple<long, long>>(c, o);
        wd.disarm(); o.flush();
    }
    return 0;
}
// mode "priobatch": priority_queue_node<long>: several operations handed to the node's aggregator handler as ONE batch (white box: a linked list of buffer_operation
// records passed to handle_operations, as happens when several threads queue operations while another thread is the active handler).
// case: (op v)* with op 1 v put | 2 get | 3 reserve | 4 release | 5 consume | 9 0 end of batch.   output per op: status (1 succeeded / 0 failed), value (for get / reserve)
static int prio_batch() {
    using node_t = tbb::flow::priority_queue_node<long>; using op_t = node_t::buffer_operation;
    std::vector<i128> c; Out o; Watchdog wd(20.0);
    while (read_case(c)) {
        wd.arm(&o);
        tbb::flow::graph g; node_t n(g);
        std::deque<op_t> ops; std::deque<long> vals; std::vector<int> kinds;
        auto flush_batch = [&] {
            if (ops.empty()) return;
            for (size_t i = 0; i + 1 < ops.size(); ++i) ops[i].next = &ops[i + 1];
            ops.back().next = nullptr;
            n.handle_operations(&ops[0]);
            for (size_t i = 0; i < ops.size(); ++i) {
                o.put(ops[i].status.load() == tbb::detail::d2::SUCCEEDED ? 1 : 0);
                o.put((kinds[i] == 2 || kinds[i] == 3) && ops[i].status.load() == tbb::detail::d2::SUCCEEDED ? vals[i] : 0);
                if (ops[i].ltask && ops[i].ltask != tbb::detail::d2::SUCCESSFULLY_ENQUEUED) tbb::detail::d2::spawn_in_graph_arena(g, *ops[i].ltask);
            }
            g.wait_for_all();
            ops.clear(); vals.clear(); kinds.clear();
        };
        for (size_t p = 0; p + 1 < c.size(); p += 2) {
            int op = (int)c[p]; long v = (long)c[p + 1];
            if (op == 9) { flush_batch(); continue; }
            vals.push_back(v); kinds.push_back(op);
            switch (op) {
            case 1: ops.emplace_back(vals.back(), node_t::put_item); break;
            case 2: ops.emplace_back(vals.back(), node_t::req_item); break;
            case 3: ops.emplace_back(vals.back(), node_t::res_item); break;
            case 4: ops.emplace_back(node_t::rel_res); break;
            default: ops.emplace_back(node_t::con_res); break;
            }
        }
        flush_batch();
        // drain: a reservation still held is released, then single-operation batches of get until the node is empty
        o.put(-7);
        if (n.my_reserved) { ops.emplace_back(node_t::rel_res); vals.push_back(0); kinds.push_back(4); ops.back().next = nullptr; n.handle_operations(&ops[0]);
                             if (ops[0].ltask && ops[0].ltask != tbb::detail::d2::SUCCESSFULLY_ENQUEUED) tbb::detail::d2::spawn_in_graph_arena(g, *ops[0].ltask); g.wait_for_all(); ops.clear(); vals.clear(); kinds.clear(); }
        for (int guard = 0; guard < 10000; ++guard) { long v = 0; if (!n.try_get(v)) break; o.put(v); }
        wd.disarm(); o.flush();
    }
    return 0;
}
static int mt_join(int P, unsigned seed, int n, int policy) {   // two ports fed by different threads: queueing -> i-th with i-th; reserving -> all-or-nothing; key_matching -> same key
    tbb::global_control gc(tbb::global_control::max_allowed_parallelism, P);
    graph g;
    std::vector<std::pair<long, long>> got; std::mutex m;
    function_node<std::tuple<long, long>, continue_msg> f(g, serial, [&](const std::tuple<long, long>& t) { std::lock_guard<std::mutex> l(m); got.push_back({std::get<0>(t), std::get<1>(t)}); return continue_msg(); });
    long bad = 0;
    if (policy == 0) {
        join_node<std::tuple<long, long>, queueing> j(g); make_edge(j, f);
        std::thread a([&] { for (int i = 0; i < n; ++i) input_port<0>(j).try_put(i); }), b([&] { for (int i = 0; i < n; ++i) input_port<1>(j).try_put(1000000 + i); });
        a.join(); b.join(); g.wait_for_all();
        for (size_t i = 0; i < got.size(); ++i) if (got[i].first != (long)i || got[i].second != 1000000 + (long)i) bad++;
    } else if (policy == 1) {
        queue_node<long> qa(g), qb(g); join_node<std::tuple<long, long>, reserving> j(g);
        make_edge(qa, input_port<0>(j)); make_edge(qb, input_port<1>(j)); make_edge(j, f);
        std::thread a([&] { for (int i = 0; i < n; ++i) qa.try_put(i); }), b([&] { for (int i = 0; i < n; ++i) qb.try_put(1000000 + i); });
        a.join(); b.join(); g.wait_for_all();
        for (size_t i = 0; i < got.size(); ++i) if (got[i].first != (long)i || got[i].second != 1000000 + (long)i) bad++;
    } else {
        join_node<std::tuple<long, long>, key_matching<long>> j(g, [](long v) { return v % 1000000; }, [](long v) { return v % 1000000; }); make_edge(j, f);
        std::vector<long> ka(n), kb(n); for (int i = 0; i < n; ++i) ka[i] = kb[i] = i; std::mt19937 r(seed); std::shuffle(ka.begin(), ka.end(), r); std::shuffle(kb.begin(), kb.end(), r);
        std::thread a([&] { for (int i = 0; i < n; ++i) input_port<0>(j).try_put(ka[i]); }), b([&] { for (int i = 0; i < n; ++i) input_port<1>(j).try_put(1000000 + kb[i]); });
        a.join(); b.join(); g.wait_for_all();
        std::map<long, int> seen; for (auto& p : got) { if (p.first != p.second - 1000000) bad++; if (seen[p.first]++) bad++; }
    }
    std::printf("BADTUPLES %ld COUNT %ld\n", bad, (long)got.size() - n);
    return 0;
}

int main(int argc, char** argv) {
    std::string mode = argc > 1 ? argv[1] : "";
    if (mode == "limseq") return lim_seq();
    if (mode == "priobatch") return prio_batch();
    if (mode == "joinseq") return join_seq();
    if (mode == "joinrseq") return joinr_seq();
    if (mode == "seq") {
        std::vector<i128> c; Out o; Watchdog wd(20.0);
        while (read_case(c)) {
            wd.arm(&o);
            graph g;
            switch ((int)c[0]) {
            case 0: { buffer_node<long> n(g); seq_run(g, n, c, o, true); g.wait_for_all(); } break;
            case 1: { queue_node<long> n(g); seq_run(g, n, c, o, true); g.wait_for_all(); } break;
            case 2: { sequencer_node<long> n(g, [](const long& v) { return (size_t)v; }); seq_run(g, n, c, o, true); g.wait_for_all(); } break;
            default: { priority_queue_node<long> n(g); seq_run(g, n, c, o, false); g.wait_for_all(); } break;
            }
            o.flush();
            wd.disarm();
        }
        return 0;
    }
    int P = atoi(argv[2]); unsigned seed = (unsigned)atoi(argv[3]); int n = atoi(argv[4]);
    if (mode == "mtqueue") return mt_queue(P, seed, n);
    if (mode == "mtseq") return mt_sequencer(P, seed, n);
    if (mode == "mtlimiter") return mt_limiter(P, seed, n);
    if (mode == "limdec") return lim_dec(P, seed);
    if (mode == "simplenodes") return simple_nodes(P, seed, n);
    if (mode == "mtjoin") return mt_join(P, seed, n, atoi(argv[5]));
    return 2;
}
