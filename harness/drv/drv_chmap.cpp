// C10 driver: tbb::concurrent_hash_map<long,long> with hash(k) = k.
//   seq   : cases "(op k v)*" with op 1 insert / 2 erase / 3 find / 9 dump -> results and white-box bucket dumps (sequential)
//   gate  : (compiled with the atomic prelude) npre, pre-inserted keys, nthreads, per thread (len, (op k)*), -1, schedule -> history + final contents + exclusion flags
//           op 1 insert(k, tid*1000+i) | 2 erase(k) | 3 find(k) | 4 accessor-hold(k) (write) | 5 const_accessor-hold(k) (read) | 6 insert-with-accessor hold
//   mt T seed n keys : real threads; conservation / one-winner / accessor-exclusion oracle
#include "drv/common.h"
#include "gate/gate.h"
#include <random>
#include <map>
#include <set>
#include <mutex>
#include "oneapi/tbb/concurrent_hash_map.h"
using namespace vh;

struct IdHash {
    std::size_t hash(long k) const { return (std::size_t)k; }
    bool equal(long a, long b) const { return a == b; }
};
static std::atomic<long> g_live_values{0};
struct Val {
    long v; long magic;
    Val(long x = 0) : v(x), magic(0x600d) { g_live_values++; }
    Val(const Val& o) : v(o.v), magic(0x600d) { g_live_values++; }
    ~Val() { magic = 0xdead; g_live_values--; }
};
using Map = tbb::concurrent_hash_map<long, Val, IdHash>;

static void dump(Map& mm, Out& o) {
    auto& m = (Map::base_type&)mm;     // C-style cast: the base is protected
    std::size_t mask = m.my_mask.load();
    int bits = 0; while (((std::size_t)1 << bits) < mask + 1) bits++;
    o.put(bits); o.put_u64(m.my_size.load());
    for (std::size_t i = 0; i <= mask; ++i) {
        auto* b = m.get_bucket(i);
        auto* n = b->node_list.load();
        if ((void*)n == (void*)3) { o.put(-1); continue; }
        std::vector<long> keys;
        for (; m.is_valid(n); n = n->next) keys.push_back(static_cast<Map::node*>(n)->value().first);
        o.put((long)keys.size()); for (long k : keys) o.put(k);
    }
}

static int do_seq() {
    std::vector<i128> c; Out o;
    while (read_case(c)) {
        Map m;
        for (size_t i = 0; i + 2 < c.size(); i += 3) {
            int op = (int)c[i]; long k = (long)c[i + 1], v = (long)c[i + 2];
            if (op == 9) dump(m, o);
            else if (op == 1) o.put(m.insert(std::make_pair(k, Val(v))) ? 1 : 0);
            else if (op == 2) o.put(m.erase(k) ? 1 : 0);
            else { Map::const_accessor a; if (m.find(a, k)) o.put(a->second.v); else o.put(-1); }
        }
        o.flush();
    }
    return 0;
}

// exclusion bookkeeping per key (token-serialised under the gate; mutex-protected with real threads)
struct Excl {
    std::mutex mu; std::map<const void*, int> writers, readers; long bad_w = 0, bad_r = 0, dead = 0;   // per ELEMENT (an erased-but-still-held element and a re-inserted one share the key)
    void enter(const void* k, bool w) { std::lock_guard<std::mutex> l(mu); if (w) { if (writers[k] || readers[k]) bad_w++; writers[k]++; } else { if (writers[k]) bad_r++; readers[k]++; } }
    void leave(const void* k, bool w) { std::lock_guard<std::mutex> l(mu); if (w) writers[k]--; else readers[k]--; }
};

static int do_gate() {
    std::vector<i128> c;
    while (read_case(c)) {
        gate::reset();
        Map* m = new Map();
        Excl* ex = new Excl();
        struct Rec { int tid, op; long arg, res; long inv, resp; };
        std::vector<Rec> hist;
        std::atomic<int> pad{0};
        size_t p = 0;
        int npre = (int)c[p++];      // keys inserted sequentially before the threads start (value 999000 + key)
        for (int k = 0; k < npre; ++k) { long key = (long)c[p++]; m->insert(std::make_pair(key, Val(999000 + key))); }
        int n = (int)c[p++];
        for (int t = 0; t < n; ++t) {
            int len = (int)c[p++]; std::vector<std::pair<int, long>> sc;
            for (int k = 0; k < len; ++k) { int op = (int)c[p++]; long a = (long)c[p++]; sc.push_back({op, a}); }
            gate::spawn([m, ex, sc, t, &hist, &pad] {
                int i = 0;
                for (auto& oa : sc) {
                    long inv = (long)gate::trace.size();
                    long res = 0; long k = oa.second; ++i;
                    switch (oa.first) {
                    case 1: res = m->insert(std::make_pair(k, Val(t * 1000 + i))) ? 1 : 0; break;
                    case 2: res = m->erase(k) ? 1 : 0; break;
                    case 3: { Map::const_accessor a; res = m->find(a, k) ? a->second.v : -1; } break;
                    case 4: { Map::accessor a; if (m->find(a, k)) { const void* el = &a->second; ex->enter(el, true); for (int s = 0; s < 3; ++s) pad.fetch_add(1); if (a->second.magic != 0x600d) ex->dead++; res = a->second.v; ex->leave(el, true); } else res = -1; } break;
                    case 5: { Map::const_accessor a; if (m->find(a, k)) { const void* el = &a->second; ex->enter(el, false); for (int s = 0; s < 3; ++s) pad.fetch_add(1); if (a->second.magic != 0x600d) ex->dead++; res = a->second.v; ex->leave(el, false); } else res = -1; } break;
                    case 6: { Map::accessor a; bool ins = m->insert(a, std::make_pair(k, Val(t * 1000 + i))); const void* el = &a->second; ex->enter(el, true); for (int s = 0; s < 3; ++s) pad.fetch_add(1); if (a->second.magic != 0x600d) ex->dead++; res = ins ? 1 : 0; ex->leave(el, true); } break;
                    }
                    hist.push_back({t, oa.first, oa.second, res, inv, (long)gate::trace.size()});
                }
            });
        }
        p++;
        std::vector<int> sched; for (; p < c.size(); ++p) sched.push_back((int)c[p]);
        bool ok = gate::run(sched, 60000);
        Out o;
        for (auto& r : hist) { o.put(r.tid); o.put(r.op); o.put(r.arg); o.put(r.res); o.put(r.inv); o.put(r.resp); }
        o.word("FIN"); o.put(ok ? 1 : 0);
        if (!ok) { o.word("HANG"); o.flush(); _exit(3); }
        o.word("EXCL"); o.put(ex->bad_w); o.put(ex->bad_r); o.put(ex->dead);
        o.word("LEFT");
        std::map<long, long> left; for (auto it = m->begin(); it != m->end(); ++it) left[it->first] = it->second.v;
        for (auto& kv : left) { o.put(kv.first); o.put(kv.second); }
        o.word("SIZE"); o.put_u64(m->size());
        delete m;
        o.word("LIVE"); o.put(g_live_values.load());
        o.flush();
        delete ex;
    }
    return 0;
}

static int do_mt(int T, unsigned seed, int nops, int keys) {
    Map m; Excl ex;
    std::vector<std::atomic<long>> ins_ok(keys), era_ok(keys);
    for (auto& x : ins_ok) x = 0; for (auto& x : era_ok) x = 0;
    std::vector<std::thread> th;
    std::atomic<long> find_after_insert_failed{0};
    for (int t = 0; t < T; ++t) th.emplace_back([&, t] {
        std::mt19937 r(seed * 977 + t);
        for (int i = 0; i < nops; ++i) {
            long k = r() % keys; int op = r() % 10;
            if (op < 4) { if (m.insert(std::make_pair(k, Val(t)))) ins_ok[k]++; }
            else if (op < 6) { if (m.erase(k)) era_ok[k]++; }
            else if (op < 7) { Map::accessor a; if (m.find(a, k)) { ex.enter(&a->second, true); if (a->second.magic != 0x600d) ex.dead++; a->second.v++; ex.leave(&a->second, true); } }
            else if (op < 9) { Map::const_accessor a; if (m.find(a, k)) { ex.enter(&a->second, false); if (a->second.magic != 0x600d) ex.dead++; ex.leave(&a->second, false); } }
            else { Map::accessor a; if (m.find(a, k)) { ex.enter(&a->second, true); ex.leave(&a->second, true); if (m.erase(a)) era_ok[k]++; } }
        }
        // private keys: a find after a completed insert and before any erase must succeed
        for (int i = 0; i < 200; ++i) { long k = keys + t * 1000 + i; m.insert(std::make_pair(k, Val(7))); Map::const_accessor a; if (!m.find(a, k)) find_after_insert_failed++; }
    });
    for (auto& x : th) x.join();
    long bad_balance = 0;
    for (int k = 0; k < keys; ++k) { long present = m.count(k); if (ins_ok[k] - era_ok[k] != present) bad_balance++; }
    long priv_missing = 0;
    for (int t = 0; t < T; ++t) for (int i = 0; i < 200; ++i) if (!m.count(keys + t * 1000 + i)) priv_missing++;
    std::set<long> seen; long dup = 0, n = 0;
    for (auto it = m.begin(); it != m.end(); ++it) { if (!seen.insert(it->first).second) dup++; n++; }
    std::printf("BALANCE %ld PRIVMISSING %ld DUP %ld SIZEDIFF %ld BADW %ld BADR %ld DEAD %ld FINDFAIL %ld\n", bad_balance, priv_missing, dup, (long)m.size() - n, ex.bad_w, ex.bad_r, ex.dead, find_after_insert_failed.load());
    return 0;
}

int main(int argc, char** argv) {
    std::string mode = argc > 1 ? argv[1] : "";
    if (mode == "seq") return do_seq();
    if (mode == "gate") return do_gate();
    if (mode == "mt") return do_mt(atoi(argv[2]), (unsigned)atoi(argv[3]), atoi(argv[4]), atoi(argv[5]));
    return 2;
}
