// C01 scheduler-level oracle (real threads, real library): every submitted unit of work runs exactly once (or is skipped
// exactly once when its group was cancelled); waits cover all transitively submitted work.
//   args: P seed n scenario   scenario: 0 task_group tree | 1 arena enqueue+execute | 2 affinity parallel_for x3 | 3 isolate |
//         4 cancelled group | 5 nested groups from several external threads | 6 task_handle / defer | 7 nested isolation, unwaited inner group
#include "common.h"
#include <random>
#include <mutex>
#include "oneapi/tbb/task_group.h"
#include "oneapi/tbb/task_arena.h"
#include "oneapi/tbb/parallel_for.h"
#include "oneapi/tbb/blocked_range.h"
#include "oneapi/tbb/partitioner.h"
#include "oneapi/tbb/global_control.h"
using namespace vh;

static std::vector<std::atomic<int>>* g_cnt;
static std::atomic<long> g_next{0};

static void tree(tbb::task_group& tg, int depth, unsigned seed) {
    long id = g_next++; if (id < (long)g_cnt->size()) (*g_cnt)[id]++;
    if (depth <= 0) return;
    int kids = 1 + seed % 3;
    for (int k = 0; k < kids; ++k) tg.run([&tg, depth, seed, k] { tree(tg, depth - 1, seed * 31 + k + 1); });
}

int main(int argc, char** argv) {
    int P = atoi(argv[1]); unsigned seed = (unsigned)atoi(argv[2]); int n = atoi(argv[3]); int sc = atoi(argv[4]);
    Watchdog wd(60.0); Out o; wd.arm(&o);
    tbb::global_control gc(tbb::global_control::max_allowed_parallelism, P);
    long notonce = 0, early = 0, twice = 0;
    std::vector<std::atomic<int>> cnt(n * 40 + 100); for (auto& x : cnt) x = 0; g_cnt = &cnt; g_next = 0;
    if (sc == 0) {
        tbb::task_group tg;
        for (int i = 0; i < n; ++i) tg.run([&tg, i, seed] { tree(tg, 3, seed + i); });
        tg.wait();
        long total = g_next.load();      // every started unit has finished: counters are final and visible
        for (long i = 0; i < total && i < (long)cnt.size(); ++i) if (cnt[i].load(std::memory_order_relaxed) != 1) notonce++;
        // a second wait must have nothing left
        long before = g_next.load(); tg.wait(); if (g_next.load() != before) early++;
    } else if (sc == 1) {
        tbb::task_arena a(std::max(1, P / 2), seed % 2);
        std::atomic<int> done{0};
        for (int i = 0; i < n; ++i) a.enqueue([&cnt, &done, i] { cnt[i]++; done++; });
        a.execute([&] { tbb::task_group tg; for (int i = n; i < 2 * n; ++i) tg.run([&cnt, i] { cnt[i]++; }); tg.wait();
                        for (int i = n; i < 2 * n; ++i) if (cnt[i] != 1) early++; });
        for (int k = 0; k < 200000 && done.load() < n; ++k) std::this_thread::sleep_for(std::chrono::microseconds(50));
        for (int i = 0; i < 2 * n; ++i) if (cnt[i] != 1) notonce++;
    } else if (sc == 2) {
        tbb::affinity_partitioner ap;
        for (int rep = 0; rep < 3; ++rep) {
            tbb::parallel_for(tbb::blocked_range<int>(0, n, 1 + seed % 4), [&](const tbb::blocked_range<int>& r) { for (int i = r.begin(); i != r.end(); ++i) cnt[i]++; }, ap);
            for (int i = 0; i < n; ++i) if (cnt[i] != rep + 1) notonce++;
        }
    } else if (sc == 3) {
        tbb::parallel_for(0, n, [&](int i) {
            tbb::this_task_arena::isolate([&] { tbb::parallel_for(0, 8, [&](int j) { cnt[i * 8 + j]++; }); for (int j = 0; j < 8; ++j) if (cnt[i * 8 + j] != 1) early++; });
        });
        for (int i = 0; i < n * 8; ++i) if (cnt[i] != 1) notonce++;
    } else if (sc == 4) {
        tbb::task_group tg; std::atomic<int> ran{0};
        for (int i = 0; i < n; ++i) tg.run([&, i] { cnt[i]++; if (++ran == n / 3) tg.cancel(); });
        tg.wait();
        for (int i = 0; i < n; ++i) { if (cnt[i] > 1) twice++; }
        // the group is reusable and nothing of the cancelled batch starts later
        std::vector<int> snap(n); for (int i = 0; i < n; ++i) snap[i] = cnt[i];
        tg.run([&] { cnt[n]++; }); tg.wait(); if (cnt[n] != 1) notonce++;
        for (int i = 0; i < n; ++i) if (cnt[i] != snap[i]) early++;
    } else if (sc == 5) {
        std::vector<std::thread> th;
        for (int t = 0; t < 4; ++t) th.emplace_back([&, t] {
            tbb::task_group outer;
            for (int i = 0; i < n / 4; ++i) outer.run([&, t, i] { tbb::task_group inner; for (int j = 0; j < 4; ++j) inner.run([&, t, i, j] { cnt[(t * (n / 4) + i) * 4 + j]++; }); inner.wait();
                                                                  for (int j = 0; j < 4; ++j) if (cnt[(t * (n / 4) + i) * 4 + j] != 1) early++; });
            outer.wait();
        });
        for (auto& x : th) x.join();
        for (int i = 0; i < (n / 4) * 4 * 4; ++i) if (cnt[i] != 1) notonce++;
    } else if (sc == 7) {
        // work submitted in a nested isolated region and not waited for there sits ABOVE the enclosing region's task in the owner's
        // deque: the owner's get_task skips it (foreign isolation tag), takes its own task from the head and re-publishes the skipped one
        tbb::task_arena a(std::max(2, std::min(P, 8)));
        a.execute([&] {
            tbb::parallel_for(0, 1000, [](int) { for (volatile int k = 0; k < 2000; ++k) {} });      // warm the workers up
            for (int i = 0; i < n; ++i) {
                tbb::task_group gA, gB;
                tbb::this_task_arena::isolate([&] {
                    gA.run([&cnt, i] { cnt[2 * i]++; for (volatile int k = 0; k < 60000; ++k) {} });
                    tbb::this_task_arena::isolate([&] { gB.run([&cnt, i] { cnt[2 * i + 1]++; }); });
                    if (i % 3 == 0) tbb::this_task_arena::isolate([&] { gB.run([&cnt, i, n] { cnt[2 * n + i]++; }); });
                    gA.wait();
                    if (cnt[2 * i] != 1) early++;
                });
                gB.wait();
                if (cnt[2 * i + 1] != 1) early++;
                std::atomic<int> sum{0};
                tbb::parallel_for(0, 64, [&](int) { sum++; }, tbb::simple_partitioner{});
                if (sum != 64) early++;
            }
        });
        for (int i = 0; i < 2 * n; ++i) if (cnt[i] != 1) { notonce++; if (cnt[i] > 1) twice++; }
        for (int i = 0; i < n; i += 3) if (cnt[2 * n + i] != 1) notonce++;
    } else {
        tbb::task_group tg; std::vector<tbb::task_handle> hs;
        for (int i = 0; i < n; ++i) hs.push_back(tg.defer([&cnt, i] { cnt[i]++; }));
        for (int i = 0; i < n; ++i) if (cnt[i] != 0) early++;          // deferred work does not run before it is submitted
        for (auto& h : hs) tg.run(std::move(h));
        tg.wait();
        for (int i = 0; i < n; ++i) if (cnt[i] != 1) notonce++;
    }
    wd.disarm();
    std::printf("NOTONCE %ld TWICE %ld EARLY %ld\n", notonce, twice, early);
    return 0;
}
