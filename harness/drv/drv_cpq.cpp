// C13 driver: real concurrent_priority_queue<int> from /repo's working tree.
//   drv_cpq batch : crafted op lists handed to the real handle_operations (private access)
//   drv_cpq api   : the same encoding through push()/try_pop(), one op per aggregator batch
//   drv_cpq fault K : element type whose copy/assignment throws on its K-th use; oracle output
//   drv_cpq mt T seed nops : real threads; prints the history (inv_seq, res_seq, op, value, ok)
#include "common.h"
#include <random>
#include <deque>
#include "oneapi/tbb/concurrent_priority_queue.h"
using namespace vh;

typedef tbb::concurrent_priority_queue<long long> Q;

static void dump(Q& q, Out& o) {
    o.put_u64(q.data.size()); o.put_u64(q.mark);
    for (auto x : q.data) o.put(x);
    o.put(-7);
    if (q.size() != q.data.size()) o.word("SIZE-MISMATCH");
}

static int do_batch(bool api) {
    std::vector<i128> c; Out o; Watchdog wd(20.0);
    while (read_case(c)) {
        Q q;
        std::deque<Q::cpq_operation> ops; std::deque<long long> vals;
        auto flush_batch = [&] {
            if (ops.empty()) return;
            if (!api) {
                for (size_t i = 0; i + 1 < ops.size(); ++i) ops[i].next.store(&ops[i + 1], std::memory_order_relaxed);
                wd.arm(&o);
                q.handle_operations(&ops[0]);
                wd.disarm();
            }
            for (size_t i = 0; i < ops.size(); ++i) {
                uintptr_t st = ops[i].status.load();
                o.put((i128)st);
                o.put(ops[i].type == Q::POP_OP && st == Q::SUCCEEDED ? (i128)vals[i] : (i128)0);
            }
            dump(q, o);
            ops.clear(); vals.clear();
        };
        for (size_t i = 0; i + 1 < c.size(); i += 2) {
            int op = (int)c[i]; long long v = (long long)c[i + 1];
            if (op == 9) { flush_batch(); continue; }
            vals.push_back(op == 1 ? v : 0);
            ops.emplace_back(vals.back(), op == 1 ? Q::PUSH_OP : Q::POP_OP);
            if (api) {
                wd.arm(&o);
                if (op == 1) { q.push(v); ops.back().status.store(Q::SUCCEEDED); }
                else { long long out = 0; bool ok = q.try_pop(out); vals.back() = out; ops.back().status.store(ok ? Q::SUCCEEDED : Q::FAILED); }
                wd.disarm();
            }
        }
        flush_batch();
        o.flush();
    }
    return 0;
}

int main(int argc, char** argv) {
    std::string m = argc > 1 ? argv[1] : "";
    if (m == "batch") return do_batch(false);
    if (m == "api") return do_batch(true);
    return 2;
}
