// C13 driver: real concurrent_priority_queue<int> from /repo's working tree.
//   drv_cpq batch : crafted op lists handed to the real handle_operations (private access)
//   drv_cpq api   : the same encoding through push()/try_pop(), one op per aggregator batch
//   drv_cpq fault K : element type whose copy/assignment throws on its K-th use; oracle output
//   drv_cpq mt T seed nops : real threads; prints the history (inv_seq, res_seq, op, value, ok)
#include "common.h"
#include <random>
#include <deque>
#include <thread>
#include <atomic>
#include <algorithm>
#include "oneapi/tbb/concurrent_priority_queue.h"
using namespace vh;

typedef tbb::concurrent_priority_queue<long long> Q;

static void dump(Q& q, Out& o) {
    o.put_u64(q.data.size()); o.put_u64(q.mark);
    for (auto x : q.data) o.put(x);
    o.put(-7);
    if (q.size() != q.data.size()) o.word("SIZE-MISMATCH");
}

static int do_batch(bool api) {
    std::vector<i128> c; Out o; Watchdog wd(20.0);
    while (read_case(c)) {
        Q q;
        std::deque<Q::cpq_operation> ops; std::deque<long long> vals;
        auto flush_batch = [&] {
            if (ops.empty()) return;
            if (!api) {
                for (size_t i = 0; i + 1 < ops.size(); ++i) ops[i].next.store(&ops[i + 1], std::memory_order_relaxed);
                wd.arm(&o);
                q.handle_operations(&ops[0]);
                wd.disarm();
            }
            for (size_t i = 0; i < ops.size(); ++i) {
                uintptr_t st = ops[i].status.load();
                o.put((i128)st);
                o.put(ops[i].type == Q::POP_OP && st == Q::SUCCEEDED ? (i128)vals[i] : (i128)0);
            }
            dump(q, o);
            ops.clear(); vals.clear();
        };
        for (size_t i = 0; i + 1 < c.size(); i += 2) {
            int op = (int)c[i]; long long v = (long long)c[i + 1];
            if (op == 9) { flush_batch(); continue; }
            vals.push_back(op == 1 ? v : 0);
            ops.emplace_back(vals.back(), op == 1 ? Q::PUSH_OP : Q::POP_OP);
            if (api) {
                wd.arm(&o);
                if (op == 1) { q.push(v); ops.back().status.store(Q::SUCCEEDED); }
                else { long long out = 0; bool ok = q.try_pop(out); vals.back() = out; ops.back().status.store(ok ? Q::SUCCEEDED : Q::FAILED); }
                wd.disarm();
            }
        }
        flush_batch();
        o.flush();
    }
    return 0;
}

// ---- fault mode: elements whose copy (push) or assignment target (pop) throws for chosen operations -------------------
struct Boom {};
struct FE {
    long long v = 0; bool poison = false;      // poison: copying/moving FROM this value throws (a push of it fails)
    bool reject = false;                        // reject: assigning INTO this object throws (a pop into it fails)
    FE() = default;
    FE(long long x, bool p = false, bool r = false) : v(x), poison(p), reject(r) {}
    FE(const FE& o) : v(o.v), poison(o.poison), reject(false) { if (o.poison) throw Boom(); }
    FE(FE&& o) : v(o.v), poison(o.poison), reject(false) { if (o.poison) throw Boom(); }
    FE& operator=(const FE& o) { if (reject || o.poison) throw Boom(); v = o.v; poison = o.poison; return *this; }
    FE& operator=(FE&& o) { if (reject || o.poison) throw Boom(); v = o.v; poison = o.poison; return *this; }
    bool operator<(const FE& o) const { return v < o.v; }
};
typedef tbb::concurrent_priority_queue<FE> QF;

// input: ops  1 v = push v | 2 0 = pop | 3 v = push v whose copy throws | 4 0 = pop whose assignment throws | 9 9 = end of batch
// mode "faultbatch": batches go to handle_operations; an exception escaping handle_operations is reported as ESCAPED.
// mode "faultapi"  : one op at a time through push/try_pop; output per op: status (1 ok, 2 failed/empty, 3 exception to the caller)
static int do_fault(bool api) {
    std::vector<i128> c; Out o; Watchdog wd(6.0);
    while (read_case(c)) {
        QF q;
        std::deque<QF::cpq_operation> ops; std::deque<FE> vals;
        auto flush_batch = [&] {
            if (ops.empty()) return;
            for (size_t i = 0; i + 1 < ops.size(); ++i) ops[i].next.store(&ops[i + 1], std::memory_order_relaxed);
            bool escaped = false;
            wd.arm(&o);
            try { q.handle_operations(&ops[0]); } catch (...) { escaped = true; }
            wd.disarm();
            for (size_t i = 0; i < ops.size(); ++i) {
                uintptr_t st = ops[i].status.load();
                o.put((i128)st);
                o.put(ops[i].type == QF::POP_OP && st == QF::SUCCEEDED ? (i128)vals[i].v : (i128)0);
            }
            if (escaped) o.word("ESCAPED");
            o.put_u64(q.data.size()); o.put_u64(q.mark);
            for (auto& x : q.data) o.put(x.v);
            o.put(-7);
            ops.clear(); vals.clear();
        };
        for (size_t i = 0; i + 1 < c.size(); i += 2) {
            int op = (int)c[i]; long long v = (long long)c[i + 1];
            if (op == 9) { if (!api) flush_batch(); continue; }
            if (!api) {
                bool push = op == 1 || op == 3;
                if (push) vals.emplace_back(v, op == 3, false); else vals.emplace_back(0, false, op == 4);
                ops.emplace_back(vals.back(), push ? QF::PUSH_OP : QF::POP_OP);
            } else {
                wd.arm(&o);
                int st = 1; long long out = 0;
                try {
                    if (op == 1 || op == 3) { FE e(v, op == 3, false); q.push(e); }
                    else { FE dst(0, false, op == 4); bool ok = q.try_pop(dst); st = ok ? 1 : 2; out = ok ? dst.v : 0; }
                } catch (Boom&) { st = 3; } catch (std::bad_alloc&) { st = 3; }
                wd.disarm();
                o.put(st); o.put(out);
            }
        }
        if (!api) flush_batch();
        else { o.put_u64(q.data.size()); o.put_u64(q.mark); for (auto& x : q.data) o.put(x.v); o.put(-7); }
        o.flush();
    }
    return 0;
}

// mode "mt T seed n": real threads.  Elements have a slow copy / move constructor; some throw when copied.  Oracle:
//   LATE   a push's element was read by the handler after that push() had returned to its caller (the operation record and the element live on the
//          caller's stack: the answer must not be published before the element is in the queue)
//   EXC    a push whose element throws must throw to ITS caller (and only to it), a push that does not throw must not
//   CONS   popped + left = successfully pushed (as multisets)
//   ORDER  drained by one thread afterwards the queue pops in non-increasing priority
struct ME {
    long v = 0; std::atomic<int>* returned = nullptr;
    static std::atomic<long>& late() { static std::atomic<long> x{0}; return x; }
    ME() = default; ME(long x, std::atomic<int>* r) : v(x), returned(r) {}
    void from(const ME& o) { for (volatile int k = 0; k < 150; ++k) {} if (o.v % 1000 == 999) throw 7; if (o.returned && o.returned->load()) late()++; v = o.v; returned = nullptr; }
    ME(const ME& o) { from(o); }
    ME(ME&& o) { from(o); }
    ME& operator=(const ME& o) { v = o.v; returned = nullptr; return *this; }
    ME& operator=(ME&& o) { v = o.v; returned = nullptr; return *this; }
};
struct MELess { bool operator()(const ME& a, const ME& b) const { return a.v < b.v; } };
static int do_mt(int T, unsigned seed, int n) {
    tbb::concurrent_priority_queue<ME, MELess> q(200000);      // spare capacity from the start
    std::vector<std::vector<std::atomic<int>>> flags(T); for (auto& f : flags) { f = std::vector<std::atomic<int>>(n); for (auto& x : f) x = 0; }
    std::vector<std::vector<ME>> src(T, std::vector<ME>(n));
    std::vector<std::vector<long>> pushed(T), popped(T);
    std::atomic<long> excbad{0}; std::atomic<int> go{0};
    std::vector<std::thread> th;
    for (int t = 0; t < T; ++t) th.emplace_back([&, t] {
        std::mt19937 r(seed * 131 + t);
        while (!go.load()) {}
        for (int i = 0; i < n; ++i) {
            if (r() % 4 != 0) {
                long v = (long)(r() % 50) * 1000 + (r() % 16 == 0 ? 999 : (long)(r() % 900));
                src[t][i].v = v; src[t][i].returned = &flags[t][i];
                bool threw = false;
                try { if (r() % 2) q.push(src[t][i]); else q.push(std::move(src[t][i])); } catch (...) { threw = true; }   // a failed push surfaces as std::bad_alloc
                flags[t][i] = 1;
                if (threw != (v % 1000 == 999)) excbad++;
                if (!threw) pushed[t].push_back(v);
            } else { ME d; if (q.try_pop(d)) popped[t].push_back(d.v); }
        }
    });
    go = 1;
    for (auto& x : th) x.join();
    long order = 0, cons = 0; std::vector<long> rest; ME d; long prev = -1; bool first = true;
    while (q.try_pop(d)) { if (!first && d.v > prev) order++; prev = d.v; first = false; rest.push_back(d.v); }
    std::vector<long> a, b; for (auto& p : pushed) a.insert(a.end(), p.begin(), p.end()); for (auto& p : popped) b.insert(b.end(), p.begin(), p.end());
    b.insert(b.end(), rest.begin(), rest.end()); std::sort(a.begin(), a.end()); std::sort(b.begin(), b.end()); if (a != b) cons = 1;
    std::printf("LATE %ld EXC %ld CONS %ld ORDER %ld\n", ME::late().load(), excbad.load(), cons, order);
    return 0;
}

int main(int argc, char** argv) {
    if (argc > 1 && std::string(argv[1]) == "faultbatch") return do_fault(false);
    if (argc > 1 && std::string(argv[1]) == "faultapi") return do_fault(true);
    std::string m = argc > 1 ? argv[1] : "";
    if (m == "mt") return do_mt(atoi(argv[2]), (unsigned)atoi(argv[3]), atoi(argv[4]));
    if (m == "batch") return do_batch(false);
    if (m == "api") return do_batch(true);
    return 2;
}
