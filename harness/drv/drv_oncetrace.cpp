// C19 trace-conformance driver (compiled with -include prelude/verif_atomic.h, linked with the real library).
//   trace : seed T nthrow perturb -> T real threads call collaborative_call_once on one flag; every access to the flag's m_state
//           and to a published runner's m_ref_count is executed AND logged under one global lock, so the log is the exact order of
//           these accesses.  Output: T, then per event  tid var runner kind before after ok  (raw 64-bit values; runner = address
//           of the runner whose m_ref_count is accessed, var 3 = the user function finished (ok = it threw)), then -9 and the
//           outcome counters.  Threads are delayed at random (seeded) at logged accesses to widen the few-instruction windows.
#include "common.h"
#include <random>
#include <pthread.h>
#include "oneapi/tbb/collaborative_call_once.h"
using namespace vh;

struct Ev { int tid, var; unsigned long long runner; int kind; unsigned long long before, after; int ok; };
static pthread_mutex_t L = PTHREAD_MUTEX_INITIALIZER;
static thread_local int my_tid = -1;
static thread_local bool held = false;
static thread_local int cur_var = 0;
static thread_local unsigned long long cur_runner = 0;
static thread_local unsigned rs = 1;
static const void* state_addr = nullptr;
static unsigned long long runners[64]; static int nrunners = 0;
static std::vector<Ev> trace;
static int perturb = 0;   // probability (out of 256) of a delay before a logged access

static inline unsigned rnd() { rs = rs * 1103515245u + 12345u; return (rs >> 8) & 0xffffff; }

static int classify(const void* addr, unsigned long long& runner) {
    if (addr == state_addr) return 1;
    for (int i = 0; i < nrunners; ++i) if ((unsigned long long)(uintptr_t)addr == runners[i]) { runner = runners[i]; return 2; }
    return 0;
}

extern "C" void verif_sched_point(const void* addr, int kind, int order) {
    if (my_tid < 0 || addr == nullptr) return;
    pthread_mutex_lock(&L);
    unsigned long long r = 0; int var = classify(addr, r);
    if (var == 0) { pthread_mutex_unlock(&L); return; }
    if (perturb && (int)(rnd() & 255) < perturb) {
        pthread_mutex_unlock(&L);
        unsigned d = rnd() % 4;
        if (d == 0) sched_yield(); else usleep(d * 40);
        pthread_mutex_lock(&L);
    }
    held = true; cur_var = var; cur_runner = r;
}
extern "C" void verif_log(const void* addr, int kind, int order, unsigned long long before, unsigned long long after, int ok) {
    if (my_tid < 0 || !held) return;
    trace.push_back({my_tid, cur_var, cur_runner, kind, before, after, ok});
    if (cur_var == 1 && kind == VA_CAS && ok && before == 0 && nrunners < 64) runners[nrunners++] = after;   // a winner published its runner
    held = false;
    pthread_mutex_unlock(&L);
}
static void note_function_end(int threw) {
    pthread_mutex_lock(&L);
    trace.push_back({my_tid, 3, 0, 0, 0, 0, threw});
    pthread_mutex_unlock(&L);
}

struct OnceBoom {};

int main(int argc, char** argv) {
    std::vector<i128> c; Out o; Watchdog wd(30.0);
    while (read_case(c)) {
        unsigned seed = (unsigned)c[0]; int T = (int)c[1]; int nthrow = (int)c[2]; perturb = (int)c[3];
        tbb::collaborative_once_flag flag;
        state_addr = &flag.m_state; nrunners = 0; trace.clear();
        int attempts = 0, successes = 0, exc_callers = 0, ok_callers = 0;      // written under L / after join
        pthread_barrier_t bar; pthread_barrier_init(&bar, nullptr, T);
        wd.arm(&o);
        std::vector<std::thread> th;
        for (int t = 0; t < T; ++t) th.emplace_back([&, t] {
            rs = seed * 2654435761u + t * 40503u + 1;
            pthread_barrier_wait(&bar);
            if (rnd() & 1) usleep(rnd() % 60);
            my_tid = t;
            auto body = [&] {
                pthread_mutex_lock(&L); int a = attempts++; pthread_mutex_unlock(&L);
                for (volatile unsigned k = 0; k < (rnd() % 3000); ++k) {}
                if (a < nthrow) { note_function_end(1); throw OnceBoom(); }
                pthread_mutex_lock(&L); successes++; pthread_mutex_unlock(&L);
                note_function_end(0);
            };
            int res = 0;
            try { tbb::collaborative_call_once(flag, body); res = 1; } catch (OnceBoom&) { res = 2; }
            my_tid = -1;
            pthread_mutex_lock(&L); if (res == 1) ok_callers++; else exc_callers++; pthread_mutex_unlock(&L);
        });
        for (auto& x : th) x.join();
        wd.disarm();
        pthread_barrier_destroy(&bar);
        o.put(T);
        for (auto& e : trace) { o.put(e.tid); o.put(e.var); o.put_u64(e.runner); o.put(e.kind); o.put_u64(e.before); o.put_u64(e.after); o.put(e.ok); }
        o.put(-9); o.put(successes); o.put(ok_callers); o.put(exc_callers); o.put(attempts);
        o.flush();
    }
    return 0;
}
