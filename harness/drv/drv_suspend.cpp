// C20 driver (real threads, real library): tasks suspend themselves; the suspend point is resumed from the callback itself,
// from a foreign helper thread after a seeded delay, or from another task; every suspension must continue exactly once and
// the enclosing wait must not return before.   input: seed P ntasks mode(0 mixed,1 in-callback,2 foreign,3 task,4 foreign after 1-40 ms) nested(0/1)
#include "common.h"
#include <unistd.h>
#include <cstring>
#include <algorithm>
#include <functional>
#include <random>
#include <mutex>
#include <condition_variable>
#include <queue>
#include "oneapi/tbb/task.h"
#include "oneapi/tbb/task_group.h"
#include "oneapi/tbb/task_arena.h"
#include "oneapi/tbb/parallel_for.h"
using namespace vh;

struct Helper {   // foreign thread that resumes suspend points after a delay
    std::mutex m; std::condition_variable cv; std::queue<std::pair<tbb::task::suspend_point, unsigned>> q; bool stop = false; std::thread th;
    Helper() { th = std::thread([this] {
        for (;;) { std::unique_lock<std::mutex> l(m); cv.wait(l, [this] { return stop || !q.empty(); }); if (q.empty()) return;
            auto it = q.front(); q.pop(); l.unlock();
            if (it.second & 0x40000000u) std::this_thread::sleep_for(std::chrono::milliseconds(it.second & 0xffff)); else
            for (volatile unsigned i = 0; i < it.second; ++i) {}
            tbb::task::resume(it.first); } }); }
    void post(tbb::task::suspend_point sp, unsigned delay) { { std::lock_guard<std::mutex> l(m); q.push({sp, delay}); } cv.notify_one(); }
    ~Helper() { { std::lock_guard<std::mutex> l(m); stop = true; } cv.notify_one(); th.join(); }
};

// mode 5/6: the thread that could run the resume task is busy WAITING for the suspended task: task A suspends (resumed by a foreign thread
// a little later), task B — taken by the same thread on the fresh stack, or by another thread of the arena — waits for A's group, plainly
// (mode 5) or inside this_task_arena::isolate (mode 6: an isolated waiter must still take resume tasks, they carry no isolation tag).
static void waiter_rounds(unsigned seed, int P, int n, bool isolated, Out& o) {
    std::mt19937 r(seed);
    long notonce = 0, early = 0, bnotdone = 0;
    tbb::task_arena arena(P);
    for (int round = 0; round < n; ++round) {
        std::atomic<tbb::task::suspend_point> sp{nullptr}; std::atomic<bool> go{false}, resume_called{false};
        std::atomic<int> continued{0}, before{0}, bfin{0};
        unsigned delay_us = r() % 300;
        std::thread foreign([&] { while (!go.load()) std::this_thread::yield(); tbb::task::suspend_point p = sp.load();
                                  if (delay_us) std::this_thread::sleep_for(std::chrono::microseconds(delay_us)); resume_called = true; tbb::task::resume(p); });
        arena.execute([&] {
            tbb::task_group tgA, tgB;
            tgB.run([&] {
                auto wait_for_a = [&] { while (sp.load() == nullptr) std::this_thread::yield(); go = true; tgA.wait(); };
                if (isolated) tbb::this_task_arena::isolate(wait_for_a); else wait_for_a();
                ++bfin;
            });
            tgA.run([&] {
                tbb::task::suspend([&](tbb::task::suspend_point p) { sp.store(p); });
                if (!resume_called.load()) ++before;
                ++continued;
            });
            tgB.wait(); tgA.wait();
        });
        foreign.join();
        if (continued != 1) notonce++; if (before) early++; if (bfin != 1) bnotdone++;
    }
    o.word("NOTONCE"); o.put(notonce); o.word("TWICE"); o.put(0); o.word("EARLYWAIT"); o.put(early); o.word("TWOTHREADS"); o.put(bnotdone);
}

// mode 7: suspension at the OUTERMOST level of an external thread (not inside a task): K external threads enter arena(K+W+extra, K+W), each spawns a long task, suspends
// (the callback publishes the suspend point) and keeps busy with its long task on the fresh stack; W more external threads block in task_group::wait on a deferred
// task_handle; the main thread resumes the points in a seeded order with seeded delays while the owners are still busy, then lets the long tasks finish:
// every suspended point must continue exactly once, on its OWN thread (an outermost stack belongs to its thread), within 6 s; then the waiters are released.
// P (c[1]) = K, n (c[2]) = rounds, nested (c[4]) = extra worker slots.   output: NOTONCE (not exactly once / never) TWICE 0 EARLYWAIT (before resume) TWOTHREADS (continued on a foreign thread)
static void outermost_rounds(unsigned seed, int K, int rounds, int extra, Out& o) {
    std::mt19937 r(seed);
    long notonce = 0, early = 0, foreign_thread = 0;
    for (int round = 0; round < rounds; ++round) {
        int W = 1 + (int)(r() % 2);
        tbb::task_arena arena(K + W + extra, K + W);
        std::vector<std::atomic<tbb::task::suspend_point>> sp(K); for (auto& x : sp) x = nullptr;
        std::vector<std::atomic<int>> continued(K), lstarted(K), own(K), resumed(K), tdone(K); for (int k = 0; k < K; ++k) { continued[k] = 0; lstarted[k] = 0; own[k] = 0; resumed[k] = 0; tdone[k] = 0; }
        std::atomic<int> release{0}, waiting{0}, wdone{0}; std::atomic<long> earlyc{0};
        std::vector<tbb::task_handle> handles(W);
        std::vector<std::thread> th;
        for (int k = 0; k < K; ++k) th.emplace_back([&, k] {
            std::thread::id me = std::this_thread::get_id();
            arena.execute([&] {
                tbb::task_group tg;
                tg.run([&, k] { lstarted[k] = 1; while (!release.load()) std::this_thread::yield(); });
                tbb::task::suspend([&](tbb::task::suspend_point p) { sp[k] = p; });
                if (!resumed[k].load()) earlyc++;
                if (std::this_thread::get_id() == me) own[k] = 1;
                ++continued[k];
                tg.wait();
            });
            tdone[k] = 1;
        });
        auto wait_ms = [&](std::function<bool()> pr, int ms) { for (int i = 0; i < ms * 10 && !pr(); ++i) std::this_thread::sleep_for(std::chrono::microseconds(100)); return pr(); };
        bool ok = wait_ms([&] { for (int k = 0; k < K; ++k) if (sp[k].load() == nullptr) return false; return true; }, 10000);
        for (int w = 0; w < W; ++w) th.emplace_back([&, w] { arena.execute([&] { tbb::task_group tg2; handles[w] = tg2.defer([] {}); waiting++; tg2.wait(); }); wdone++; });
        ok = ok && wait_ms([&] { return waiting.load() == W; }, 10000);
        std::this_thread::sleep_for(std::chrono::milliseconds(5 + r() % 30));
        std::vector<int> order(K); for (int k = 0; k < K; ++k) order[k] = k; std::shuffle(order.begin(), order.end(), r);
        if (ok) for (int k : order) { resumed[k] = 1; tbb::task::resume(sp[k].load()); if (r() % 2) std::this_thread::sleep_for(std::chrono::milliseconds(r() % 40)); }
        std::this_thread::sleep_for(std::chrono::milliseconds(r() % 200));
        release = 1;
        bool all = ok && wait_ms([&] { for (int k = 0; k < K; ++k) if (!continued[k].load()) return false; return true; }, 6000);
        if (!all) { notonce++; o.word("NOTONCE"); o.put(notonce); o.word("TWICE"); o.put(0); o.word("EARLYWAIT"); o.put(earlyc.load()); o.word("TWOTHREADS"); o.put(0); o.flush(); std::_Exit(0); }
        wait_ms([&] { for (int k = 0; k < K; ++k) if (!tdone[k].load()) return false; return true; }, 6000);
        for (int k = 0; k < K; ++k) { if (continued[k] != 1) notonce++; if (!own[k]) foreign_thread++; }
        early += earlyc.load();
        for (auto& h : handles) h = tbb::task_handle{};
        wait_ms([&] { return wdone.load() == W; }, 6000);
        for (auto& x : th) x.join();
    }
    o.word("NOTONCE"); o.put(notonce); o.word("TWICE"); o.put(0); o.word("EARLYWAIT"); o.put(early); o.word("TWOTHREADS"); o.put(foreign_thread);
}

// mode 8: the group of a suspended task is CANCELLED while the task is suspended; the resume comes afterwards from the main thread while the arena's worker is busy in
// another group: the suspended code must still continue exactly once (a resumed task is not "skipped because its group was cancelled") and task_group::wait must return.
// P = arena size, n = rounds.   output: NOTONCE / TWICE 0 / EARLYWAIT (wait returned before the continuation) / TWOTHREADS 0
static void cancelled_rounds(unsigned seed, int P, int rounds, Out& o) {
    std::mt19937 r(seed);
    long notonce = 0, early = 0;
    tbb::task_arena arena(P);
    for (int round = 0; round < rounds; ++round) {
        std::atomic<tbb::task::suspend_point> sp{nullptr}; std::atomic<int> continued{0}, busy_go{0}, busy_in{0}, waited{0};
        tbb::task_group tg, other;
        std::thread runner([&] { arena.execute([&] {
            tg.run([&] { tbb::task::suspend([&](tbb::task::suspend_point p) { sp = p; }); ++continued; });
            for (int k = 0; k < 40000 && sp.load() == nullptr; ++k) std::this_thread::sleep_for(std::chrono::microseconds(100));
            if (r() % 2) { other.run([&] { busy_in = 1; while (!busy_go.load()) std::this_thread::yield(); }); }     // keeps a thread of the arena busy in a blocking task
            std::this_thread::sleep_for(std::chrono::milliseconds(2 + r() % 10));
            if (sp.load() == nullptr) { busy_go = 1; tg.wait(); other.wait(); continued = 1; waited = 1; return; }   // no other thread took the task in time: the round says nothing
            tg.cancel();
            tbb::task::resume(sp.load());
            tg.wait();
            if (continued.load() != 1) early++;
            waited = 1; busy_go = 1; other.wait();
        }); });
        for (int k = 0; k < 80000 && !waited.load(); ++k) std::this_thread::sleep_for(std::chrono::microseconds(100));
        if (!waited.load()) { notonce++; o.word("NOTONCE"); o.put(notonce); o.word("TWICE"); o.put(0); o.word("EARLYWAIT"); o.put(early); o.word("TWOTHREADS"); o.put(0); o.flush(); std::_Exit(0); }
        runner.join();
        if (continued.load() != 1) notonce++;
    }
    o.word("NOTONCE"); o.put(notonce); o.word("TWICE"); o.put(0); o.word("EARLYWAIT"); o.put(early); o.word("TWOTHREADS"); o.put(0);
}

// diagnostics: a crash prints the faulting thread's backtrace (on an alternate stack: the fault may be on a small coroutine stack)
#include <execinfo.h>
#include <signal.h>
static void segv_handler(int sig, siginfo_t* si, void*) {
    void* bt[40]; int n = backtrace(bt, 40);
    char msg[128]; int len = snprintf(msg, sizeof msg, "\nSIGNAL %d at address %p, backtrace:\n", sig, si ? si->si_addr : nullptr); ssize_t w = write(2, msg, (size_t)len); (void)w;
    backtrace_symbols_fd(bt, n, 2);
    // classify (the driver is linked with -rdynamic): a fault inside the destructor of a task_group function_task = the task releases a wait-tree reference vertex that is gone
    const char* kind = "other";
    char** sym = backtrace_symbols(bt, n);
    // the function_task of a local lambda has no dynamic symbol: recognise the shape "unnamed driver frames (task destructor <- task execute) directly beneath local_wait_for_all<coroutine_waiter>"
    if (sym) for (int i = 2; i < n && i < 6; ++i) if (strstr(sym[i], "local_wait_for_all") && strstr(sym[i], "coroutine_waiter") && strstr(sym[i - 1], "(+0x")) kind = "taskdtor";
    len = snprintf(msg, sizeof msg, "CRASHKIND %s\n", kind); w = write(2, msg, (size_t)len); (void)w;
    _exit(139);
}
static void install_segv_handler() {
    static char altstack[1 << 16]; stack_t ss; ss.ss_sp = altstack; ss.ss_size = sizeof altstack; ss.ss_flags = 0; sigaltstack(&ss, nullptr);
    struct sigaction sa; memset(&sa, 0, sizeof sa); sa.sa_sigaction = segv_handler; sa.sa_flags = SA_SIGINFO | SA_ONSTACK; sigaction(SIGSEGV, &sa, nullptr); sigaction(SIGBUS, &sa, nullptr);
}

int main() {
    install_segv_handler();
    std::vector<i128> c; Out o; Watchdog wd(30.0);
    while (read_case(c)) {
        unsigned seed = (unsigned)c[0]; int P = (int)c[1]; int n = (int)c[2]; int mode = (int)c[3]; bool nested = c[4] != 0;
        if (mode == 5 || mode == 6) { wd.arm(&o); waiter_rounds(seed, P, n, mode == 6, o); wd.disarm(); o.flush(); continue; }
        if (mode == 7) { outermost_rounds(seed, P, n, nested ? 2 : 0, o); o.flush(); continue; }
        if (mode == 8) { cancelled_rounds(seed, P, n, o); o.flush(); continue; }
        std::vector<std::atomic<int>> cont(2 * n); for (auto& x : cont) x = 0;
        std::atomic<long> early{0}, two_threads{0}, other_work{0};
        std::vector<std::atomic<int>> running(2 * n); for (auto& x : running) x = 0;
        wd.arm(&o);
        {
            Helper helper[2];
            tbb::task_arena arena(P);
            arena.execute([&] {
                tbb::task_group tg;
                for (int i = 0; i < n; ++i) tg.run([&, i] {
                    std::mt19937 r(seed * 131 + i);
                    auto one = [&](int id) {
                        int how = mode ? mode : 1 + r() % 3; unsigned delay = r() % 3 == 0 ? 0 : r() % 20000;
                        if (how == 4) { how = 2; delay = 0x40000000u | (1 + r() % 40); }   // late resume: the suspending thread has run out of work and sleeps
                        if (++running[id] != 1) two_threads++;
                        tbb::task::suspend([&](tbb::task::suspend_point sp) {
                            --running[id];
                            if (how == 1) tbb::task::resume(sp);                       // from the suspend callback itself
                            else if (how == 2) helper[id % 2].post(sp, delay);         // foreign thread, racing with the stack switch
                            else tg.run([sp, delay] { for (volatile unsigned k = 0; k < delay; ++k) {} tbb::task::resume(sp); });   // another task
                        });
                        if (++running[id] != 1) two_threads++;
                        cont[id]++;
                        --running[id];
                    };
                    one(i);
                    if (nested && r() % 2) one(n + i);
                    other_work++;
                });
                tg.wait();
                // the wait covers suspended tasks: every started suspension has continued by now
                for (int i = 0; i < n; ++i) if (cont[i].load() != 1) early++;
            });
        }
        wd.disarm();
        long bad = 0, twice = 0;
        for (int i = 0; i < 2 * n; ++i) { if (cont[i] > 1) twice++; if (i < n && cont[i] != 1) bad++; }
        o.word("NOTONCE"); o.put(bad); o.word("TWICE"); o.put(twice); o.word("EARLYWAIT"); o.put(early.load()); o.word("TWOTHREADS"); o.put(two_threads.load());
        o.flush();
    }
    return 0;
}
