// C17/C18 driver: the real tbbmalloc front end (frontend.cpp is #included so that internals are visible), linked with
// the rest of tbbmalloc compiled from /repo's working tree.
//   params : prints Gallina definitions of the allocator's constants (appended to Params.v)
//   sizes  : per input s (1..8128) -> getIndex(s) getObjectSize(s)
//   seq    : op lists on a fresh memory pool, single thread: per op the slab-relative offset / large placement
//   guards : overflow / argument validation of calloc, posix_memalign, aligned_malloc, large allocation
#include "common.h"
#include <cerrno>
#include <map>
#include "tbbmalloc/frontend.cpp"
using namespace vh;
using namespace rml::internal;

static void defz(const char* n, unsigned long long v) { std::printf("Definition %s : Z := %llu.\n", n, v); }

static int do_params() {
    std::printf("(* tbbmalloc constants (printed by harness/drv/drv_malloc.cpp params) *)\n");
    defz("mal_slabSize", slabSize); defz("mal_sizeof_Block", sizeof(Block));
    defz("mal_maxSmallObjectSize", maxSmallObjectSize); defz("mal_maxSegregatedObjectSize", maxSegregatedObjectSize);
    defz("mal_fittingSize1", fittingSize1); defz("mal_fittingSize2", fittingSize2); defz("mal_fittingSize3", fittingSize3);
    defz("mal_fittingSize4", fittingSize4); defz("mal_fittingSize5", fittingSize5);
    defz("mal_fittingAlignment", fittingAlignment); defz("mal_minLargeObjectSize", minLargeObjectSize);
    defz("mal_minSmallObjectIndex", minSmallObjectIndex); defz("mal_numSmallObjectBins", numSmallObjectBins);
    defz("mal_minSegregatedObjectIndex", minSegregatedObjectIndex); defz("mal_minFittingIndex", minFittingIndex);
    defz("mal_numBlockBins", numBlockBins);
    defz("mal_largeObjectAlignment", largeObjectAlignment); defz("mal_estimatedCacheLineSize", estimatedCacheLineSize);
    defz("mal_headersSize", sizeof(LargeMemoryBlock) + sizeof(LargeObjectHdr));
    defz("mal_maxLargeSize", LargeObjectCache::maxLargeSize); defz("mal_largeCacheStep", LargeObjectCache::LargeBSProps::CacheStep);
    defz("mal_hugeStepFactorExp", LargeObjectCache::HugeBSProps::StepFactorExp);
    return 0;
}

static int do_sizes() {
    std::vector<i128> c; Out o;
    while (read_case(c)) {
        for (i128 x : c) { unsigned s = (unsigned)x; o.put(getIndex(s)); o.put(getObjectSize(s)); }
        o.flush();
    }
    return 0;
}

// raw memory callbacks of the test pool
static std::vector<std::pair<char*, size_t>> g_regions; static long g_raw_allocs = 0, g_raw_frees = 0, g_fail_at = -1, g_bad_free = 0;
static void* raw_alloc(intptr_t, size_t& bytes) {
    long k = g_raw_allocs++;
    if (k == g_fail_at) return nullptr;
    void* p = nullptr;
    if (posix_memalign(&p, 1 << 20, bytes)) return nullptr;
    g_regions.push_back({(char*)p, bytes});
    return p;
}
static int raw_free(intptr_t, void* p, size_t bytes) {
    g_raw_frees++;
    bool found = false;
    for (auto it = g_regions.begin(); it != g_regions.end(); ++it) if (it->first == p && it->second == bytes) { g_regions.erase(it); found = true; break; }
    if (!found) g_bad_free++;
    free(p);
    return 0;
}
static bool in_regions(void* p, size_t n) { for (auto& r : g_regions) if ((char*)p >= r.first && (char*)p + n <= r.first + r.second) return true; return false; }

// seq: ops  1 size = malloc | 2 slot = free(slot-th allocation) | 3 size align = aligned_malloc | 4 slot newsize = realloc
// output per alloc: kind(0 small,1 large,-1 null) objsize_or_unaligned offset msize alignedok
static int do_seq() {
    std::vector<i128> c; Out o;
    while (read_case(c)) {
        g_regions.clear(); g_raw_allocs = g_raw_frees = 0; g_fail_at = -1; g_bad_free = 0;
        rml::MemPoolPolicy pol(raw_alloc, raw_free);
        rml::MemoryPool* pool = nullptr;
        rml::pool_create_v1(0, &pol, &pool);
        std::vector<void*> slots; std::vector<size_t> req;
        std::map<char*, size_t> live; int overlap = 0, outside = 0, corrupt = 0;
        TLSData* tlsd = nullptr;
        auto cacheidx = [&]() -> unsigned { tlsd = ((rml::internal::MemoryPool*)pool)->getTLS(/*create=*/false); return tlsd ? tlsd->currCacheIdx : 0; };
        unsigned idx_before = 0;
        auto report = [&](void* p, size_t size, size_t align) {
            if (!p) { o.put(-1); o.put(0); o.put(0); o.put(0); o.put(1); return; }
            size_t ms = rml::pool_msize(pool, p);
            bool alok = ((uintptr_t)p % (align ? align : (size <= 8 ? 8 : 16))) == 0;
            if (isLargeObject<ourMem>(p)) {
                LargeMemoryBlock* lmb = ((LargeObjectHdr*)p - 1)->memoryBlock;
                o.put(1); o.put_u64(lmb->unalignedSize); o.put_u64((uintptr_t)p - (uintptr_t)lmb); o.put_u64(ms); o.put(alok && ms >= size);
                o.put_u64((uintptr_t)lmb); o.put_u64(idx_before); o.put_u64(cacheidx());
            } else {
                Block* b = (Block*)alignDown(p, slabSize);
                o.put(0); o.put_u64(b->objectSize); o.put_u64((uintptr_t)p - (uintptr_t)b); o.put_u64(ms); o.put(alok && ms >= size);
            }
            // oracle bookkeeping: disjoint from every live block, inside the pool's regions
            char* cp = (char*)p; size_t n = size ? size : 1;
            for (auto& l : live) if (cp < l.first + l.second && l.first < cp + n) overlap++;
            if (!in_regions(p, n)) outside++;
            live[cp] = n; memset(p, 0xA0 + (slots.size() % 16), n);
        };
        for (size_t i = 0; i < c.size();) {
            int op = (int)c[i];
            if (op == 1) { size_t s = (size_t)c[i + 1]; idx_before = cacheidx(); void* p = rml::pool_malloc(pool, s); report(p, s, 0); slots.push_back(p); req.push_back(s); i += 2; }
            else if (op == 3) { size_t s = (size_t)c[i + 1], a = (size_t)c[i + 2]; idx_before = cacheidx(); void* p = rml::pool_aligned_malloc(pool, s, a); report(p, s, a); slots.push_back(p); req.push_back(s); i += 3; }
            else if (op == 2) { size_t k = (size_t)c[i + 1];
                if (k < slots.size() && slots[k]) {
                    char* cp = (char*)slots[k]; size_t n = live[cp];
                    for (size_t j = 0; j < n; ++j) if ((unsigned char)cp[j] != (unsigned char)(0xA0 + (k % 16))) { corrupt++; break; }
                    live.erase(cp); rml::pool_free(pool, slots[k]); slots[k] = nullptr; }
                o.put(-2); i += 2; }
            else { size_t k = (size_t)c[i + 1], ns = (size_t)c[i + 2];
                if (k < slots.size() && slots[k]) {
                    char* cp = (char*)slots[k]; size_t n = live[cp]; unsigned char pat = (unsigned char)(0xA0 + (k % 16));
                    live.erase(cp);
                    void* q = rml::pool_realloc(pool, slots[k], ns);
                    if (q) { size_t keep = n < ns ? n : ns; for (size_t j = 0; j < keep; ++j) if (((unsigned char*)q)[j] != pat) { corrupt++; break; }
                             size_t nn = ns ? ns : 1; char* cq = (char*)q;
                             for (auto& l : live) if (cq < l.first + l.second && l.first < cq + nn) overlap++;
                             live[cq] = nn; memset(q, pat, nn); slots[k] = q; req[k] = ns;
                             o.put(-3); o.put_u64(rml::pool_msize(pool, q) >= ns); }
                    else { live[cp] = n; o.put(-3); o.put(0); }
                } else { o.put(-3); o.put(1); }
                i += 3; }
        }
        // every live block still holds its pattern
        for (size_t k = 0; k < slots.size(); ++k) if (slots[k]) { char* cp = (char*)slots[k]; size_t n = live[cp];
            for (size_t j = 0; j < n; ++j) if ((unsigned char)cp[j] != (unsigned char)(0xA0 + (k % 16))) { corrupt++; break; } }
        rml::pool_destroy(pool);
        o.word("OVERLAP"); o.put(overlap); o.word("OUTSIDE"); o.put(outside); o.word("CORRUPT"); o.put(corrupt);
        o.word("LEFT"); o.put_u64(g_regions.size()); o.word("BADFREE"); o.put(g_bad_free);
        o.flush();
    }
    return 0;
}

// guards: per line "kind a b":  1 calloc(nobj,size)  2 posix_memalign(align,size)  3 aligned_malloc(size,align)  4 malloc(size)
// output: 0 = refused (null / error code), 1 = succeeded ; plus errno-class
static int do_guards() {
    std::vector<i128> c; Out o;
    while (read_case(c)) {
        for (size_t i = 0; i + 2 < c.size(); i += 3) {
            int k = (int)c[i]; size_t a = (size_t)c[i + 1], b = (size_t)c[i + 2];
            errno = 0; void* p = nullptr; int rc = 0;
            if (k == 1) p = scalable_calloc(a, b);
            else if (k == 2) { rc = scalable_posix_memalign(&p, a, b); if (rc) p = nullptr; }
            else if (k == 3) p = scalable_aligned_malloc(a, b);
            else p = scalable_malloc(a);
            int cls = k == 2 ? (rc == EINVAL ? 2 : rc == ENOMEM ? 1 : 0) : (p ? 0 : (errno == EINVAL ? 2 : errno == ENOMEM ? 1 : 3));
            o.put(p ? 1 : 0); o.put(cls);
            if (p) {
                // a successful huge allocation must really be that big: touch first and last byte
                size_t n = k == 1 ? a * b : (k == 2 ? b : a);
                if (n) { ((volatile char*)p)[0] = 1; ((volatile char*)p)[n - 1] = 1; }
                scalable_free(p);
            }
        }
        o.flush();
    }
    return 0;
}

int main(int argc, char** argv) {
    std::string m = argc > 1 ? argv[1] : "";
    if (m == "params") return do_params();
    if (m == "sizes") return do_sizes();
    if (m == "seq") return do_seq();
    if (m == "guards") return do_guards();
    return 2;
}
