// C17/C18 driver: the real tbbmalloc front end (frontend.cpp is #included so that internals are visible), linked with
// the rest of tbbmalloc compiled from /repo's working tree.
//   params : prints Gallina definitions of the allocator's constants (appended to Params.v)
//   sizes  : per input s (1..8128) -> getIndex(s) getObjectSize(s)
//   seq    : op lists on a fresh memory pool, single thread: per op the slab-relative offset / large placement
//   guards : overflow / argument validation of calloc, posix_memalign, aligned_malloc, large allocation
#include "common.h"
#include <fcntl.h>
#include <unistd.h>
#include <cerrno>
#include <map>
#include <random>
#include "tbbmalloc/frontend.cpp"
using namespace vh;
using namespace rml::internal;

static void defz(const char* n, unsigned long long v) { std::printf("Definition %s : Z := %llu.\n", n, v); }

static int do_params() {
    std::printf("(* tbbmalloc constants (printed by harness/drv/drv_malloc.cpp params) *)\n");
    defz("mal_slabSize", slabSize); defz("mal_sizeof_Block", sizeof(Block));
    defz("mal_maxSmallObjectSize", maxSmallObjectSize); defz("mal_maxSegregatedObjectSize", maxSegregatedObjectSize);
    defz("mal_fittingSize1", fittingSize1); defz("mal_fittingSize2", fittingSize2); defz("mal_fittingSize3", fittingSize3);
    defz("mal_fittingSize4", fittingSize4); defz("mal_fittingSize5", fittingSize5);
    defz("mal_fittingAlignment", fittingAlignment); defz("mal_minLargeObjectSize", minLargeObjectSize);
    defz("mal_minSmallObjectIndex", minSmallObjectIndex); defz("mal_numSmallObjectBins", numSmallObjectBins);
    defz("mal_minSegregatedObjectIndex", minSegregatedObjectIndex); defz("mal_minFittingIndex", minFittingIndex);
    defz("mal_numBlockBins", numBlockBins);
    defz("mal_largeObjectAlignment", largeObjectAlignment); defz("mal_estimatedCacheLineSize", estimatedCacheLineSize);
    defz("mal_headersSize", sizeof(LargeMemoryBlock) + sizeof(LargeObjectHdr));
    defz("mal_maxLargeSize", LargeObjectCache::maxLargeSize); defz("mal_largeCacheStep", LargeObjectCache::LargeBSProps::CacheStep);
    defz("mal_hugeStepFactorExp", LargeObjectCache::HugeBSProps::StepFactorExp);
    return 0;
}

static int do_sizes() {
    std::vector<i128> c; Out o;
    while (read_case(c)) {
        for (i128 x : c) { unsigned s = (unsigned)x; o.put(getIndex(s)); o.put(getObjectSize(s)); }
        o.flush();
    }
    return 0;
}

// raw memory callbacks of the test pool
static std::vector<std::pair<char*, size_t>> g_regions; static long g_raw_allocs = 0, g_raw_frees = 0, g_fail_at = -1, g_bad_free = 0;
static long g_fixed_off = -1;      // >= 0: the next raw request is answered with a 2 MB buffer that starts this many bytes above a 1 MB boundary (fixed pools)
static void* raw_alloc(intptr_t, size_t& bytes) {
    long k = g_raw_allocs++;
    if (k == g_fail_at) return nullptr;
    void* p = nullptr;
    if (g_fixed_off >= 0) {
        if (posix_memalign(&p, 1 << 20, (4 << 20))) return nullptr;
        bytes = 2 << 20;
        char* q = (char*)p + g_fixed_off;
        g_regions.push_back({q, bytes});
        g_fixed_off = -1;
        return q;
    }
    if (posix_memalign(&p, 1 << 20, bytes)) return nullptr;
    g_regions.push_back({(char*)p, bytes});
    return p;
}
static int raw_free(intptr_t, void* p, size_t bytes) {
    g_raw_frees++;
    bool found = false;
    for (auto it = g_regions.begin(); it != g_regions.end(); ++it) if (it->first == p && it->second == bytes) { g_regions.erase(it); found = true; break; }
    if (!found) g_bad_free++;
    // the region is quarantined, not returned to the OS: a later use of it is then diagnosed by the ledger, not by a crash
    return 0;
}
static bool in_regions(void* p, size_t n) { for (auto& r : g_regions) if ((char*)p >= r.first && (char*)p + n <= r.first + r.second) return true; return false; }

// seq: ops  1 size = malloc | 2 slot = free(slot-th allocation) | 3 size align = aligned_malloc | 4 slot newsize = realloc
// output per alloc: kind(0 small,1 large,-1 null) objsize_or_unaligned offset msize alignedok
static int do_seq() {
    std::vector<i128> c; Out o; Watchdog wd(15.0);
    while (read_case(c)) {
        wd.arm(&o);
        g_regions.clear(); g_raw_allocs = g_raw_frees = 0; g_fail_at = -1; g_bad_free = 0;
        rml::MemPoolPolicy pol(raw_alloc, raw_free);
        rml::MemoryPool* pool = nullptr;
        rml::pool_create_v1(0, &pol, &pool);
        std::vector<void*> slots; std::vector<size_t> req;
        std::map<char*, size_t> live; int overlap = 0, outside = 0, corrupt = 0;
        TLSData* tlsd = nullptr;
        auto cacheidx = [&]() -> unsigned { tlsd = ((rml::internal::MemoryPool*)pool)->getTLS(/*create=*/false); return tlsd ? tlsd->currCacheIdx : 0; };
        unsigned idx_before = 0;
        auto report = [&](void* p, size_t size, size_t align) {
            if (!p) { o.put(-1); o.put(0); o.put(0); o.put(0); o.put(1); return; }
            size_t ms = rml::pool_msize(pool, p);
            bool alok = ((uintptr_t)p % (align ? align : (size <= 8 ? 8 : 16))) == 0;
            if (isLargeObject<ourMem>(p)) {
                LargeMemoryBlock* lmb = ((LargeObjectHdr*)p - 1)->memoryBlock;
                o.put(1); o.put_u64(lmb->unalignedSize); o.put_u64((uintptr_t)p - (uintptr_t)lmb); o.put_u64(ms); o.put(alok && ms >= size);
                o.put_u64((uintptr_t)lmb); o.put_u64(idx_before); o.put_u64(cacheidx());
            } else {
                Block* b = (Block*)alignDown(p, slabSize);
                o.put(0); o.put_u64(b->objectSize); o.put_u64((uintptr_t)p - (uintptr_t)b); o.put_u64(ms); o.put(alok && ms >= size);
            }
            // oracle bookkeeping: disjoint from every live block, inside the pool's regions
            char* cp = (char*)p; size_t n = size ? size : 1;
            for (auto& l : live) if (cp < l.first + l.second && l.first < cp + n) overlap++;
            if (!in_regions(p, n)) outside++;
            live[cp] = n; memset(p, 0xA0 + (slots.size() % 16), n);
        };
        for (size_t i = 0; i < c.size();) {
            int op = (int)c[i];
            if (op == 1) { size_t s = (size_t)c[i + 1]; idx_before = cacheidx(); void* p = rml::pool_malloc(pool, s); report(p, s, 0); slots.push_back(p); req.push_back(s); i += 2; }
            else if (op == 3) { size_t s = (size_t)c[i + 1], a = (size_t)c[i + 2]; idx_before = cacheidx(); void* p = rml::pool_aligned_malloc(pool, s, a); report(p, s, a); slots.push_back(p); req.push_back(s); i += 3; }
            else if (op == 2) { size_t k = (size_t)c[i + 1];
                if (k < slots.size() && slots[k]) {
                    char* cp = (char*)slots[k]; size_t n = live[cp];
                    for (size_t j = 0; j < n; ++j) if ((unsigned char)cp[j] != (unsigned char)(0xA0 + (k % 16))) { corrupt++; break; }
                    live.erase(cp); rml::pool_free(pool, slots[k]); slots[k] = nullptr; }
                o.put(-2); i += 2; }
            else { size_t k = (size_t)c[i + 1], ns = (size_t)c[i + 2];
                if (k < slots.size() && slots[k]) {
                    char* cp = (char*)slots[k]; size_t n = live[cp]; unsigned char pat = (unsigned char)(0xA0 + (k % 16));
                    live.erase(cp);
                    void* q = rml::pool_realloc(pool, slots[k], ns);
                    if (q) { size_t keep = n < ns ? n : ns; for (size_t j = 0; j < keep; ++j) if (((unsigned char*)q)[j] != pat) { corrupt++; break; }
                             size_t nn = ns ? ns : 1; char* cq = (char*)q;
                             for (auto& l : live) if (cq < l.first + l.second && l.first < cq + nn) overlap++;
                             live[cq] = nn; memset(q, pat, nn); slots[k] = q; req[k] = ns;
                             o.put(-3); o.put_u64(rml::pool_msize(pool, q) >= ns); }
                    else { live[cp] = n; o.put(-3); o.put(0); }
                } else { o.put(-3); o.put(1); }
                i += 3; }
        }
        // every live block still holds its pattern
        for (size_t k = 0; k < slots.size(); ++k) if (slots[k]) { char* cp = (char*)slots[k]; size_t n = live[cp];
            for (size_t j = 0; j < n; ++j) if ((unsigned char)cp[j] != (unsigned char)(0xA0 + (k % 16))) { corrupt++; break; } }
        rml::pool_destroy(pool);
        o.word("OVERLAP"); o.put(overlap); o.word("OUTSIDE"); o.put(outside); o.word("CORRUPT"); o.put(corrupt);
        o.word("LEFT"); o.put_u64(g_regions.size()); o.word("BADFREE"); o.put(g_bad_free);
        wd.disarm();
        o.flush();
    }
    return 0;
}

// guards: per line "kind a b":  1 calloc(nobj,size)  2 posix_memalign(align,size)  3 aligned_malloc(size,align)  4 malloc(size)
// output: 0 = refused (null / error code), 1 = succeeded ; plus errno-class
static int do_guards() {
    std::vector<i128> c; Out o; Watchdog wd(8.0);
    while (read_case(c)) {
        wd.arm(&o);
        for (size_t i = 0; i + 2 < c.size(); i += 3) {
            int k = (int)c[i]; size_t a = (size_t)c[i + 1], b = (size_t)c[i + 2];
            errno = 0; void* p = nullptr; int rc = 0;
            if (k == 1) p = scalable_calloc(a, b);
            else if (k == 2) { rc = scalable_posix_memalign(&p, a, b); if (rc) p = nullptr; }
            else if (k == 3) p = scalable_aligned_malloc(a, b);
            else if (k == 5) {   // realloc(malloc(a), b): the old block must survive a refused request
                void* old = scalable_malloc(a); if (old) memset(old, 0x77, a < 4096 ? a : 4096);
                errno = 0; p = scalable_realloc(old, b);
                if (!p && old) { for (size_t j = 0; j < (a < 4096 ? a : 4096); ++j) if (((unsigned char*)old)[j] != 0x77) { o.word("OLD-BLOCK-CORRUPTED"); break; } scalable_free(old); }
                if (p && scalable_msize(p) < b) { o.word("MSIZE-BELOW-REQUEST"); }
            }
            else p = scalable_malloc(a);
            int cls = k == 2 ? (rc == EINVAL ? 2 : rc == ENOMEM ? 1 : 0) : (p ? 0 : (errno == EINVAL ? 2 : errno == ENOMEM ? 1 : 3));
            o.put(p ? 1 : 0); o.put(cls);
            if (p) {
                // a successful huge allocation must really be that big: touch first and last byte
                size_t n = k == 1 ? a * b : (k == 2 || k == 5 ? b : a);
                if (n) { ((volatile char*)p)[0] = 1; ((volatile char*)p)[n - 1] = 1; }
                scalable_free(p);
            }
        }
        wd.disarm();
        o.flush();
    }
    return 0;
}

// pool: "fixed failk (op arg)*"  ops: 1 size = pool_malloc | 2 slot = pool_free | 5 0 = pool_reset | 6 size = a thread allocates and exits
// the failk-th raw allocation fails once. output per malloc: first-try(0/1) retry(0/1/-1); trailer with the raw-memory ledger
static char g_fixed_buf[8 * 1024 * 1024];
static int do_pool() {
    std::vector<i128> c; Out o; Watchdog wd(6.0);
    while (read_case(c)) {
        wd.arm(&o);
        g_regions.clear(); g_raw_allocs = g_raw_frees = 0; g_bad_free = 0;
        bool fixed = c[0] != 0; g_fail_at = (long)c[1];
        long fixed_off = c[0] >= 2 ? ((long)c[0] - 2) * 512 : -1;     // fixed >= 2: 2 MB buffer at an offset of (fixed-2)*512 bytes from a 1 MB boundary
        rml::MemoryPool* pool = nullptr; rml::MemoryPool* other = nullptr;
        rml::MemPoolPolicy pol(raw_alloc, fixed ? nullptr : raw_free, 0, fixed);
        rml::MemPoolPolicy pol2(raw_alloc, raw_free);
        long fail_save = g_fail_at; g_fail_at = -1;
        rml::pool_create_v1(7, &pol2, &other);       // a second pool alive at the same time
        void* foreign = rml::pool_malloc(other, 100);
        long raw_before = g_raw_allocs; g_fail_at = fail_save >= 0 ? fail_save + raw_before : -1;
        g_fixed_off = fixed_off;
        rml::MemPoolError e = rml::pool_create_v1(3, &pol, &pool);
        g_fixed_off = -1;
        int created = (e == rml::POOL_OK && pool) ? 1 : 0;
        o.word("CREATED"); o.put(created);
        std::vector<void*> slots; std::map<char*, std::pair<size_t, unsigned char>> live; int corrupt = 0, outside = 0, overlap = 0, ident_bad = 0;
        auto check_live = [&] { for (auto& l : live) for (size_t j = 0; j < l.second.first; ++j) if ((unsigned char)l.first[j] != l.second.second) { corrupt++; break; } };
        if (created) for (size_t i = 2; i + 1 < c.size(); i += 2) {
            int op = (int)c[i];
            if (op == 1) {
                size_t sz = (size_t)c[i + 1];
                void* p = rml::pool_malloc(pool, sz); int first = p ? 1 : 0, retry = -1;
                if (!p) { check_live(); p = rml::pool_malloc(pool, sz); retry = p ? 1 : 0; }
                o.put(first); o.put(retry);
                if (p) {
                    size_t n = sz ? sz : 1; char* cp = (char*)p;
                    for (auto& l : live) if (cp < l.first + l.second.first && l.first < cp + n) overlap++;
                    if (!in_regions(p, n)) outside++;
                    if (rml::pool_identify(p) != pool) ident_bad++;
                    unsigned char pat = (unsigned char)(0x30 + slots.size() % 64); memset(p, pat, n); live[cp] = {n, pat};
                }
                slots.push_back(p);
            } else if (op == 2) {
                size_t k = (size_t)c[i + 1];
                if (k < slots.size() && slots[k]) { live.erase((char*)slots[k]); rml::pool_free(pool, slots[k]); slots[k] = nullptr; }
            } else if (op == 5) {
                check_live(); live.clear(); for (auto& sl : slots) sl = nullptr;
                rml::pool_reset(pool);
            } else if (op == 6) {
                // another thread allocates small objects from the pool and exits while they are still allocated (orphaned slabs)
                size_t sz = (size_t)c[i + 1];
                std::thread t([&] { for (int k = 0; k < 5; ++k) { void* q = rml::pool_malloc(pool, sz); if (q) memset(q, 0x11, sz ? sz : 1); } });
                t.join();
            }
        }
        check_live();
        if (rml::pool_identify(foreign) != other) ident_bad++;
        long raw_mine = g_raw_allocs - raw_before;
        if (created) rml::pool_destroy(pool);
        size_t left_after_mine = g_regions.size();
        rml::pool_free(other, foreign); rml::pool_destroy(other);
        o.word("RAW"); o.put(raw_mine); o.word("LEFTMINE"); o.put_u64(left_after_mine); o.word("LEFT"); o.put_u64(g_regions.size());
        o.word("BADFREE"); o.put(g_bad_free); o.word("CORRUPT"); o.put(corrupt); o.word("OUTSIDE"); o.put(outside); o.word("OVERLAP"); o.put(overlap); o.word("IDENT"); o.put(ident_bad);
        wd.disarm();
        o.flush();
    }
    return 0;
}

// mt: T threads allocate patterned blocks and hand them to other threads to free (foreign frees, thread exit with live blocks)
static int do_mt(int T, unsigned seed, int nops) {
    struct Item { unsigned char* p; size_t n; unsigned char pat; };
    std::vector<std::vector<Item>> inbox(T); std::vector<MallocMutex> locks(T);
    std::atomic<long> corrupt{0}, misal{0}, small_ms{0};
    std::vector<std::thread> th;
    for (int t = 0; t < T; ++t) th.emplace_back([&, t] {
        std::mt19937 rng(seed * 131 + t);
        static const size_t szs[] = {1, 8, 9, 16, 24, 48, 64, 65, 100, 128, 500, 1024, 1025, 1792, 2688, 4033, 8128, 8129, 20000, 100000, 1 << 20};
        for (int k = 0; k < nops; ++k) {
            size_t n = szs[rng() % (sizeof szs / sizeof szs[0])]; unsigned char pat = (unsigned char)(rng() | 1);
            size_t al = (rng() % 4 == 0) ? (size_t)1 << (4 + rng() % 10) : 0;
            unsigned char* p = (unsigned char*)(al ? scalable_aligned_malloc(n, al) : (rng() % 5 == 0 ? scalable_calloc(1, n) : scalable_malloc(n)));
            if (!p) continue;
            if (((uintptr_t)p % (al ? al : (n <= 8 ? 8 : 16))) != 0) misal++;
            if (scalable_msize(p) < n) small_ms++;
            memset(p, pat, n);
            int dst = rng() % T;
            { MallocMutex::scoped_lock l(locks[dst]); inbox[dst].push_back({p, n, pat}); }
            // free what others sent us (foreign frees)
            std::vector<Item> mine; { MallocMutex::scoped_lock l(locks[t]); if (rng() % 2) mine.swap(inbox[t]); }
            for (auto& it : mine) {
                for (size_t j = 0; j < it.n; ++j) if (it.p[j] != it.pat) { corrupt++; break; }
                if (rng() % 6 == 0) { size_t nn = it.n / 2 + rng() % (it.n + 1); unsigned char* q = (unsigned char*)scalable_realloc(it.p, nn ? nn : 1);
                    if (q) { size_t keep = it.n < nn ? it.n : nn; for (size_t j = 0; j < keep; ++j) if (q[j] != it.pat) { corrupt++; break; } scalable_free(q); } else scalable_free(it.p); }
                else scalable_free(it.p);
            }
        }
    });   // threads exit with blocks still in other threads' inboxes (orphaned slabs)
    for (auto& x : th) x.join();
    for (int t = 0; t < T; ++t) for (auto& it : inbox[t]) { for (size_t j = 0; j < it.n; ++j) if (it.p[j] != it.pat) { corrupt++; break; } scalable_free(it.p); }
    std::printf("CORRUPT %ld MISALIGNED %ld MSIZE %ld\n", corrupt.load(), misal.load(), small_ms.load());
    return 0;
}

// xfree: "size align count second_size keepalive": thread A allocates `count` aligned blocks, thread B (a different thread) frees every
// other one, A allocates `count` blocks of second_size; every block is checked against all live ones (shadow map), msize, alignment.
static int do_xfree() {
    std::vector<i128> c; Out o; Watchdog wd(15.0);
    while (read_case(c)) {
        wd.arm(&o);
        size_t size = (size_t)c[0], align = (size_t)c[1]; int count = (int)c[2]; size_t size2 = (size_t)c[3]; bool keepalive = c[4] != 0;
        std::map<char*, size_t> live; long overlap = 0, msz = 0, misal = 0, corrupt = 0;
        std::vector<char*> first;
        auto track = [&](void* p, size_t n, size_t al) {
            if (!p) return; char* cp = (char*)p;
            if ((uintptr_t)p % (al ? al : (n <= 8 ? 8 : 16))) misal++;
            if (scalable_msize(p) < n) msz++;
            for (auto& l : live) if (cp < l.first + l.second && l.first < cp + n) overlap++;
            live[cp] = n; memset(p, 0x5A, n);
        };
        for (int i = 0; i < count; ++i) { void* p = align ? scalable_aligned_malloc(size, align) : scalable_malloc(size); track(p, size, align); first.push_back((char*)p); }
        std::atomic<int> phase{0};
        std::thread B([&] { for (int i = 0; i < count; i += 2) if (first[i]) { scalable_free(first[i]); } phase = 1; while (keepalive && phase.load() != 2) std::this_thread::yield(); });
        while (phase.load() != 1) std::this_thread::yield();
        if (!keepalive) B.join();
        for (int i = 0; i < count; i += 2) if (first[i]) { live.erase(first[i]); first[i] = nullptr; }
        std::vector<char*> second;
        for (int i = 0; i < count; ++i) { void* p = scalable_malloc(size2); track(p, size2, 0); second.push_back((char*)p); }
        for (auto& l : live) for (size_t j = 0; j < l.second; ++j) if ((unsigned char)l.first[j] != 0x5A) { corrupt++; break; }
        phase = 2; if (keepalive) B.join();
        for (char* p : first) if (p) scalable_free(p);
        for (char* p : second) if (p) scalable_free(p);
        o.word("OVERLAP"); o.put(overlap); o.word("MSIZE"); o.put(msz); o.word("MISALIGNED"); o.put(misal); o.word("CORRUPT"); o.put(corrupt);
        wd.disarm();
        o.flush();
    }
    return 0;
}

// api: every C entry point against a shadow map.  ops (op a b)*:  1 size 0 = malloc | 2 slot 0 = free | 3 size align = aligned_malloc | 4 slot newsize = realloc |
// 5 n size = calloc | 6 slot newsize (align in the next triple's place: op 6 uses b = log2 align) = aligned_realloc | 7 log2align size = posix_memalign | 8 slot 0 = msize
// predicate per op: the new block overlaps no live block, is aligned (requested alignment; else 16, or 8 for sizes <= 8), msize >= size, calloc memory is zero,
// realloc keeps the first min(old,new) bytes, every live block keeps its pattern, freed memory is not handed out before the free.
static int do_api() {
    std::vector<i128> c; Out o; Watchdog wd(20.0);
    while (read_case(c)) {
        wd.arm(&o);
        struct Blk { unsigned char* p; size_t n; unsigned char pat; size_t al; };
        std::vector<Blk> slots; long overlap = 0, misal = 0, msz = 0, nonzero = 0, lost = 0, corrupt = 0, badret = 0, wild = 0;
        auto live_check = [&](unsigned char* p, size_t n, size_t skip) {
            for (size_t k = 0; k < slots.size(); ++k) if (k != skip && slots[k].p) { if (p < slots[k].p + (slots[k].n ? slots[k].n : 1) && slots[k].p < p + (n ? n : 1)) overlap++; } };
        auto fill = [&](Blk& b) { memset(b.p, b.pat, b.n); };
        auto intact = [&](const Blk& b, size_t upto) { for (size_t j = 0; j < upto; ++j) if (b.p[j] != b.pat) return false; return true; };
        auto admit = [&](void* q, size_t n, size_t al, bool zero) {
            Blk b{(unsigned char*)q, n, (unsigned char)(0x21 + slots.size() % 90), al};
            if (!q) { slots.push_back({nullptr, 0, 0, 0}); return; }
            if (al > ((size_t)1 << 20)) {      // huge alignment: the block must be backed by accessible memory before anything else looks at it (write() reports EFAULT instead of a crash)
                static int nullfd = open("/dev/null", O_WRONLY);
                if (write(nullfd, q, 1) < 0 || (n && write(nullfd, (char*)q + n - 1, 1) < 0)) { wild++; slots.push_back({nullptr, 0, 0, 0}); return; }
            }
            size_t need = al ? al : (n <= 8 ? 8 : 16);
            if (((uintptr_t)q % need) != 0) misal++;
            if (scalable_msize(q) < n) msz++;
            live_check(b.p, n, (size_t)-1);
            if (zero) for (size_t j = 0; j < n; ++j) if (b.p[j] != 0) { nonzero++; break; }
            fill(b); slots.push_back(b);
        };
        for (size_t i = 0; i + 2 < c.size(); i += 3) {
            int op = (int)c[i]; size_t a = (size_t)c[i + 1], b = (size_t)c[i + 2];
            if (op == 1) admit(scalable_malloc(a), a, 0, false);
            else if (op == 3) admit(scalable_aligned_malloc(a, b), a, b, false);
            else if (op == 5) admit(scalable_calloc(a, b), a * b, 0, true);
            else if (op == 7) { void* q = nullptr; int rc = scalable_posix_memalign(&q, (size_t)1 << a, b); if (rc) { q = nullptr; if ((((size_t)1 << a) % sizeof(void*)) == 0 && a <= 20) badret++; } /* a huge alignment may legitimately be refused */ admit(q, b, (size_t)1 << a, false); }
            else if (op == 2) { if (a < slots.size() && slots[a].p) { if (!intact(slots[a], slots[a].n)) corrupt++; scalable_free(slots[a].p); slots[a].p = nullptr; } }
            else if (op == 8) { if (a < slots.size() && slots[a].p && scalable_msize(slots[a].p) < slots[a].n) msz++; }
            else if (op == 4 || op == 6) {
                if (a < slots.size() && slots[a].p) {
                    Blk old = slots[a]; size_t al = op == 6 ? ((size_t)1 << (b >> 32)) : 0; size_t nn = op == 6 ? (b & 0xffffffffu) : b;
                    if (!nn) continue;
                    void* q = op == 6 ? scalable_aligned_realloc(old.p, nn, al) : scalable_realloc(old.p, nn);
                    if (!q) continue;                                   // the old block stays valid
                    if (al > ((size_t)1 << 20)) {
                        static int nullfd2 = open("/dev/null", O_WRONLY);
                        if (write(nullfd2, q, 1) < 0 || write(nullfd2, (char*)q + nn - 1, 1) < 0) { wild++; slots[a].p = nullptr; continue; }
                    }
                    slots[a].p = nullptr;
                    Blk nb{(unsigned char*)q, nn, old.pat, al};
                    size_t keep = old.n < nn ? old.n : nn;
                    if (!intact(nb, keep)) lost++;
                    if (al && ((uintptr_t)q % al) != 0) misal++;
                    if (!al && ((uintptr_t)q % (nn <= 8 ? 8 : 16)) != 0 && old.al == 0) misal++;
                    if (scalable_msize(q) < nn) msz++;
                    live_check(nb.p, nn, a);
                    fill(nb); slots[a] = nb;
                }
            }
        }
        for (auto& bl : slots) if (bl.p) { if (!intact(bl, bl.n)) corrupt++; scalable_free(bl.p); }
        o.word("OVERLAP"); o.put(overlap); o.word("MISALIGNED"); o.put(misal); o.word("MSIZE"); o.put(msz); o.word("NONZERO"); o.put(nonzero);
        o.word("LOSTDATA"); o.put(lost); o.word("CORRUPT"); o.put(corrupt); o.word("BADRET"); o.put(badret); o.word("WILD"); o.put(wild);
        wd.disarm(); o.flush();
    }
    return 0;
}

int main(int argc, char** argv) {
    std::string m = argc > 1 ? argv[1] : "";
    if (m == "api") return do_api();
    if (m == "xfree") return do_xfree();
    if (m == "pool") return do_pool();
    if (m == "mt") return do_mt(atoi(argv[2]), (unsigned)atoi(argv[3]), atoi(argv[4]));
    if (m == "params") return do_params();
    if (m == "sizes") return do_sizes();
    if (m == "seq") return do_seq();
    if (m == "guards") return do_guards();
    return 2;
}
