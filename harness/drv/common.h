// Shared helpers for the correspondence drivers (trusted glue).
#pragma once
#include <cstdio>
#include <cstdlib>
#include <cstdint>
#include <cstring>
#include <string>
#include <vector>
#include <iostream>
#include <sstream>
#include <thread>
#include <atomic>
#include <chrono>
#include <unistd.h>

namespace vh {
typedef __int128 i128;

inline bool read_case(std::vector<i128>& out) {
    std::string line;
    if (!std::getline(std::cin, line)) return false;
    out.clear();
    std::istringstream is(line);
    std::string tok;
    while (is >> tok) {
        bool neg = tok[0] == '-';
        i128 v = 0;
        for (size_t i = neg ? 1 : 0; i < tok.size(); ++i) v = v * 10 + (tok[i] - '0');
        out.push_back(neg ? -v : v);
    }
    return true;
}

inline std::string to_s(i128 v) {
    if (v == 0) return "0";
    bool neg = v < 0;
    unsigned __int128 u = neg ? (unsigned __int128)(-v) : (unsigned __int128)v;
    std::string s;
    while (u) { s.insert(s.begin(), char('0' + int(u % 10))); u /= 10; }
    if (neg) s.insert(s.begin(), '-');
    return s;
}

struct Out {
    std::string s;
    void put(i128 v) { if (!s.empty()) s += ' '; s += to_s(v); }
    void put_u64(uint64_t v) { put((i128)v); }
    void word(const char* w) { if (!s.empty()) s += ' '; s += w; }
    void flush() { std::puts(s.c_str()); std::fflush(stdout); s.clear(); }
};

// Watchdog: if not disarmed within `secs`, prints the partial line followed by HANG and exits 3.
struct Watchdog {
    std::atomic<uint64_t> epoch{0};
    std::atomic<bool> armed{false};
    Out* out = nullptr;
    double secs;
    std::thread th;
    explicit Watchdog(double s) : secs(s) {
        th = std::thread([this] {
            uint64_t seen = 0; auto t0 = std::chrono::steady_clock::now();
            for (;;) {
                std::this_thread::sleep_for(std::chrono::milliseconds(50));
                uint64_t e = epoch.load();
                if (e != seen || !armed.load()) { seen = e; t0 = std::chrono::steady_clock::now(); continue; }
                double dt = std::chrono::duration<double>(std::chrono::steady_clock::now() - t0).count();
                if (dt > secs) {
                    std::string s = out ? out->s : std::string();
                    std::printf("%s%sHANG\n", s.c_str(), s.empty() ? "" : " ");
                    std::fflush(stdout);
                    _exit(3);
                }
            }
        });
        th.detach();
    }
    void arm(Out* o) { out = o; epoch++; armed = true; }
    void disarm() { armed = false; epoch++; }
};
}  // namespace vh
