// C20 trace-conformance driver: compiled with -include prelude/verif_atomic.h and linked with libtbb compiled the same way, so the accesses to
// suspend_point_type::m_stack_state inside the library are hooked.  Every task registers the state word of its current stack before it suspends;
// the hooks (gate/tracelog.h) execute and log the accesses to registered words under one lock (exact order), for every thread, with seeded delays.
// The word is unregistered when the stack runs again (store(active)).  input: seed P ntasks mode(0 mixed,1 callback,2 foreign,3 task)
// output: per event  tag kind before after   then -9 and the oracle counters of drv_suspend.
#include "common.h"
#include "gate/tracelog.h"
#include <random>
#include <mutex>
#include <condition_variable>
#include <queue>
#include "oneapi/tbb/task.h"
#include "oneapi/tbb/task_group.h"
#include "oneapi/tbb/task_arena.h"
#include "tbb/scheduler_common.h"
using namespace vh;

struct Helper {
    std::mutex m; std::condition_variable cv; std::queue<std::pair<tbb::task::suspend_point, unsigned>> q; bool stop = false; std::thread th;
    Helper() { th = std::thread([this] {
        for (;;) { std::unique_lock<std::mutex> l(m); cv.wait(l, [this] { return stop || !q.empty(); }); if (q.empty()) return;
            auto it = q.front(); q.pop(); l.unlock();
            for (volatile unsigned i = 0; i < it.second; ++i) {}
            tbb::task::resume(it.first); } }); }
    void post(tbb::task::suspend_point sp, unsigned delay) { { std::lock_guard<std::mutex> l(m); q.push({sp, delay}); } cv.notify_one(); }
    ~Helper() { { std::lock_guard<std::mutex> l(m); stop = true; } cv.notify_one(); th.join(); }
};

static void on_ev(const tlog::Ev& e) {
    if (e.kind == VA_STORE && e.after == 0) {            // store(active): the stack runs again, the round is over
        for (int i = 0; i < tlog::nvars; ++i) if (tlog::vars[i].id == 1 && tlog::vars[i].tag == e.tag) { tlog::vars[i] = tlog::vars[--tlog::nvars]; break; }
    }
}

int main() {
    std::vector<i128> c; Out o; Watchdog wd(30.0);
    tlog::all_threads = true; tlog::on_event = on_ev;
    while (read_case(c)) {
        unsigned seed = (unsigned)c[0]; int P = (int)c[1]; int n = (int)c[2]; int mode = (int)c[3]; tlog::perturb = (int)c[4];
        tlog::reset();
        std::vector<std::atomic<int>> cont(n); for (auto& x : cont) x = 0;
        std::atomic<long> two_threads{0}; std::vector<std::atomic<int>> running(n); for (auto& x : running) x = 0;
        wd.arm(&o);
        {
            Helper helper[2];
            tbb::task_arena arena(P);
            arena.execute([&] {
                tbb::task_group tg;
                for (int i = 0; i < n; ++i) tg.run([&, i] {
                    std::mt19937 r(seed * 131 + i);
                    int how = mode ? mode : 1 + r() % 3; unsigned delay = r() % 3 == 0 ? 0 : r() % 20000;
                    if (++running[i] != 1) two_threads++;
                    auto* spt = tbb::detail::r1::current_suspend_point();
                    tlog::reg(&spt->m_stack_state, 1, i + 1);                        // the state word of the stack this task runs on
                    tbb::task::suspend([&](tbb::task::suspend_point sp) {
                        --running[i];
                        if (how == 1) tbb::task::resume(sp);
                        else if (how == 2) helper[i % 2].post(sp, delay);
                        else tg.run([sp, delay] { for (volatile unsigned k = 0; k < delay; ++k) {} tbb::task::resume(sp); });
                    });
                    if (++running[i] != 1) two_threads++;
                    cont[i]++;
                    --running[i];
                });
                tg.wait();
            });
        }
        wd.disarm();
        long bad = 0; for (int i = 0; i < n; ++i) if (cont[i] != 1) bad++;
        pthread_mutex_lock(&tlog::L);
        for (auto& e : tlog::trace) { o.put(e.tag); o.put(e.kind); o.put_u64(e.before); o.put_u64(e.after); }
        pthread_mutex_unlock(&tlog::L);
        o.put(-9); o.put(bad); o.put(two_threads.load());
        o.flush();
    }
    return 0;
}
