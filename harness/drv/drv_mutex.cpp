// C08 oracle driver (real threads): every mutex type of the library with REUSED scoped_lock objects, blocking and try acquisitions mixed,
// reader/writer modes, upgrade and downgrade, two mutexes used alternately by the same scoped_lock objects.
//   input: kind T n seed     kind: 0 spin_mutex 1 queuing_mutex 2 mutex 3 speculative_spin_mutex 4 spin_rw_mutex 5 queuing_rw_mutex 6 rw_mutex
//                                  7 speculative_spin_rw_mutex 8 null_mutex (no exclusion promised: only liveness)
//   output: EXCL <two holders at once / writer with readers> LOST <lost updates of the protected plain counter> UPG <upgrade inconsistencies>
#include "common.h"
#include <random>
#include <mutex>
#include "oneapi/tbb/spin_mutex.h"
#include "oneapi/tbb/queuing_mutex.h"
#include "oneapi/tbb/mutex.h"
#include "oneapi/tbb/spin_rw_mutex.h"
#include "oneapi/tbb/queuing_rw_mutex.h"
#include "oneapi/tbb/rw_mutex.h"
#include "oneapi/tbb/null_mutex.h"
using namespace vh;

struct Guarded { std::atomic<int> writers{0}, readers{0}; volatile long plain = 0; std::atomic<long> expected{0}; std::atomic<long> gen{0}; };
static std::atomic<long> g_excl{0}, g_upg{0};

static void in_write(Guarded& g, std::mt19937& r) {
    if (g.writers.fetch_add(1) != 0 || g.readers.load() != 0) g_excl++;
    g.gen++; long v = g.plain; for (volatile unsigned k = 0; k < (r() % 60); ++k) {} g.plain = v + 1; g.expected++;
    g.writers--;
}
static void in_read(Guarded& g, std::mt19937& r) {
    g.readers++; if (g.writers.load() != 0) g_excl++;
    for (volatile unsigned k = 0; k < (r() % 60); ++k) {}
    g.readers--;
}

template <class M> static void run_excl(int T, int n, unsigned seed, Out& o) {
    M m[2]; Guarded g[2];
    std::atomic<int> go{0};
    std::vector<std::thread> th;
    for (int t = 0; t < T; ++t) th.emplace_back([&, t] {
        std::mt19937 r(seed * 131 + t);
        typename M::scoped_lock lk;                       // one object, used again and again (also after it had queued successors)
        go++; while (go.load() < T) std::this_thread::yield();
        for (int i = 0; i < n; ++i) {
            int w = r() % 2;
            if (r() % 3 == 0) { if (!lk.try_acquire(m[w])) continue; }
            else lk.acquire(m[w]);
            in_write(g[w], r);
            lk.release();
            if (r() % 16 == 0) std::this_thread::yield();
        }
    });
    for (auto& x : th) x.join();
    long lost = 0; for (int w = 0; w < 2; ++w) lost += g[w].expected.load() - g[w].plain;
    o.word("EXCL"); o.put(g_excl.load()); o.word("LOST"); o.put(lost); o.word("UPG"); o.put(0);
}

template <class M> static void run_rw(int T, int n, unsigned seed, Out& o) {
    M m[2]; Guarded g[2];
    std::atomic<int> go{0};
    std::vector<std::thread> th;
    for (int t = 0; t < T; ++t) th.emplace_back([&, t] {
        std::mt19937 r(seed * 131 + t);
        typename M::scoped_lock lk;
        go++; while (go.load() < T) std::this_thread::yield();
        for (int i = 0; i < n; ++i) {
            int w = r() % 2; bool write = r() % 3 == 0;
            if (r() % 3 == 0) { if (!lk.try_acquire(m[w], write)) continue; }
            else lk.acquire(m[w], write);
            if (write) {
                in_write(g[w], r);
                if (r() % 4 == 0) { long g1 = g[w].gen.load(); lk.downgrade_to_reader(); in_read(g[w], r); if (g[w].gen.load() != g1) g_upg++; }   // downgrade never lets a writer in
            } else {
                in_read(g[w], r);
                if (r() % 4 == 0) {
                    long g0 = g[w].gen.load();                       // we hold the read lock: no writer section can start now
                    bool kept = lk.upgrade_to_writer();
                    if (kept && g[w].gen.load() != g0) g_upg++;      // "true" = no other writer ran in between
                    in_write(g[w], r);                               // either way we are the writer now
                }
            }
            lk.release();
            if (r() % 16 == 0) std::this_thread::yield();
        }
    });
    for (auto& x : th) x.join();
    long lost = 0; for (int w = 0; w < 2; ++w) lost += g[w].expected.load() - g[w].plain;
    o.word("EXCL"); o.put(g_excl.load()); o.word("LOST"); o.put(lost); o.word("UPG"); o.put(g_upg.load());
}

// queue order: the main thread holds the lock, T threads queue up one after the other (each is started only when the previous one has been blocked
// for 2 ms), the lock is released: the threads must get it in the order they queued.
template <class M, bool RW> static long fifo_order(int T, int rounds) {
    long bad = 0;
    for (int round = 0; round < rounds; ++round) {
        M m; std::vector<int> order; std::mutex om; std::atomic<int> entered{0};
        typename M::scoped_lock hold; 
        if constexpr (RW) hold.acquire(m, true); else hold.acquire(m);
        std::vector<std::thread> th; void* prev_tail = (void*)m.q_tail.load();
        for (int t = 0; t < T; ++t) {
            th.emplace_back([&, t] { typename M::scoped_lock lk; entered++;
                if constexpr (RW) lk.acquire(m, true); else lk.acquire(m);
                { std::lock_guard<std::mutex> l(om); order.push_back(t); } lk.release(); });
            // white box: thread t is queued exactly when the mutex's tail pointer has moved on (no timing assumption)
            for (long spin = 0; spin < 20000000 && (void*)m.q_tail.load() == prev_tail; ++spin) std::this_thread::yield();
            prev_tail = (void*)m.q_tail.load();
        }
        hold.release();
        for (auto& x : th) x.join();
        for (int t = 0; t < T; ++t) if (order[t] != t) { bad++; break; }
    }
    return bad;
}

int main() {
    std::vector<i128> c; Out o; Watchdog wd(30.0);
    while (read_case(c)) {
        int kind = (int)c[0], T = (int)c[1], n = (int)c[2]; unsigned seed = (unsigned)c[3];
        g_excl = 0; g_upg = 0;
        wd.arm(&o);
        switch (kind) {
        case 0: run_excl<tbb::spin_mutex>(T, n, seed, o); break;
        case 1: run_excl<tbb::queuing_mutex>(T, n, seed, o); break;
        case 2: run_excl<tbb::mutex>(T, n, seed, o); break;
        case 3: run_excl<tbb::speculative_spin_mutex>(T, n, seed, o); break;
        case 4: run_rw<tbb::spin_rw_mutex>(T, n, seed, o); break;
        case 5: run_rw<tbb::queuing_rw_mutex>(T, n, seed, o); break;
        case 6: run_rw<tbb::rw_mutex>(T, n, seed, o); break;
        case 7: run_rw<tbb::speculative_spin_rw_mutex>(T, n, seed, o); break;
        case 9: { long b = fifo_order<tbb::queuing_mutex, false>(T, n); o.word("EXCL"); o.put(0); o.word("LOST"); o.put(0); o.word("UPG"); o.put(0); o.word("FIFO"); o.put(b); } break;
        case 10: { long b = fifo_order<tbb::queuing_rw_mutex, true>(T, n); o.word("EXCL"); o.put(0); o.word("LOST"); o.put(0); o.word("UPG"); o.put(0); o.word("FIFO"); o.put(b); } break;
        default: { o.word("EXCL"); o.put(0); o.word("LOST"); o.put(0); o.word("UPG"); o.put(0); } break;
        }
        wd.disarm();
        o.flush();
    }
    return 0;
}
