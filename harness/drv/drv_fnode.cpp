// C14 driver: function_node's input stage under a script (bodies block until the script lets them finish) + oracle graphs.
//   seq : cases "max queueing (op v)*"  op 1 v = try_put(v) | 2 0 = let the oldest running body finish
//         output per op: result, number of bodies started so far (after the node has settled); then -7, my_concurrency,
//         queued count, the started messages in order; then MAXRUN n FIN accepted finished WAITEARLY 0/1
//   mt P seed n limit succ : source -> limited function_node -> `succ` counting successors (real threads, oracle)
#include "common.h"
#include <memory>
#include <mutex>
#include <algorithm>
#include <map>
#include <random>
#include "oneapi/tbb/flow_graph.h"
#include "oneapi/tbb/global_control.h"
using namespace vh;
using namespace tbb::flow;

struct Ctl {
    std::mutex m; std::vector<long> started; std::vector<int> released; std::atomic<long> nstarted{0}, nfinished{0}, running{0}, maxrun{0};
};

template <class Policy> static void seq_run(std::vector<i128>& c, Out& o) {
    size_t maxc = (size_t)c[0];
    graph g; Ctl ctl;
    function_node<long, long, Policy> f(g, maxc, [&](long v) -> long {
        size_t idx;
        { std::lock_guard<std::mutex> l(ctl.m); idx = ctl.started.size(); ctl.started.push_back(v); ctl.released.push_back(0); }
        long r = ++ctl.running; long mx = ctl.maxrun.load(); while (r > mx && !ctl.maxrun.compare_exchange_weak(mx, r)) {}
        ctl.nstarted++;
        for (;;) { { std::lock_guard<std::mutex> l(ctl.m); if (ctl.released[idx]) break; } std::this_thread::yield(); }
        --ctl.running; ctl.nfinished++;
        return v;
    });
    auto& base = (typename function_node<long, long, Policy>::input_impl_type&)f;
    auto settle = [&] {
        for (int i = 0; i < 20000; ++i) {
            if (ctl.nstarted.load() - ctl.nfinished.load() == (long)base.my_concurrency) { std::this_thread::sleep_for(std::chrono::microseconds(200));
                if (ctl.nstarted.load() - ctl.nfinished.load() == (long)base.my_concurrency) return; }
            std::this_thread::sleep_for(std::chrono::microseconds(100));
        }
    };
    long accepted = 0; size_t next_release = 0;
    for (size_t i = 2; i + 1 < c.size(); i += 2) {
        int op = (int)c[i]; long v = (long)c[i + 1];
        if (op == 1) { bool r = f.try_put(v); accepted += r; settle(); o.put(r ? 1 : 0); }
        else {
            bool any = false;
            { std::lock_guard<std::mutex> l(ctl.m); if (next_release < ctl.released.size()) { ctl.released[next_release++] = 1; any = true; } }
            if (any) { long want = (long)next_release; for (int k = 0; k < 20000 && ctl.nfinished.load() < want; ++k) std::this_thread::sleep_for(std::chrono::microseconds(100)); }
            settle(); o.put(0);
        }
        o.put(ctl.nstarted.load());
    }
    o.put(-7); o.put((long)base.my_concurrency); o.put(base.my_queue ? (long)base.my_queue->size() : 0);
    { std::lock_guard<std::mutex> l(ctl.m); for (long v : ctl.started) o.put(v); }
    // wait_for_all must not return while bodies run or messages are queued
    std::atomic<int> waited{0}; long running_at_wait = ctl.nstarted.load() - ctl.nfinished.load();
    std::thread w([&] { g.wait_for_all(); waited = 1; });
    std::this_thread::sleep_for(std::chrono::milliseconds(3));
    int early = (running_at_wait > 0 && waited.load()) ? 1 : 0;
    for (int guard = 0; guard < 100000 && !waited.load(); ++guard) {
        { std::lock_guard<std::mutex> l(ctl.m); for (auto& r : ctl.released) r = 1; next_release = ctl.released.size(); }
        std::this_thread::sleep_for(std::chrono::microseconds(100));
    }
    w.join();
    o.word("MAXRUN"); o.put(ctl.maxrun.load()); o.word("FIN"); o.put(accepted); o.put(ctl.nfinished.load()); o.word("WAITEARLY"); o.put(early);
}

// pullseq: queue_node -> limited REJECTING function_node with bodies that block until the script releases them.  ops: 1 v = put v into the queue,
// 2 0 = release the oldest running body.  After every op the graph is left to settle (registration of the queue as predecessor, forwarder task)
// and the white-box state is dumped: my_concurrency, items in the queue, queue registered as predecessor?, forwarder_busy, bodies started.
static void pull_run(std::vector<i128>& c, Out& o) {
    size_t maxc = (size_t)c[0];
    graph g; Ctl ctl;
    queue_node<long> Q(g);
    function_node<long, long, rejecting> f(g, maxc, [&](long v) -> long {
        size_t idx;
        { std::lock_guard<std::mutex> l(ctl.m); idx = ctl.started.size(); ctl.started.push_back(v); ctl.released.push_back(0); }
        ctl.nstarted++;
        for (;;) { { std::lock_guard<std::mutex> l(ctl.m); if (ctl.released[idx]) break; } std::this_thread::yield(); }
        ctl.nfinished++;
        return v;
    });
    make_edge(Q, f);
    auto& base = (typename function_node<long, long, rejecting>::input_impl_type&)f;
    auto settle = [&] {
        int stable = 0;
        for (int i = 0; i < 4000 && stable < 4; ++i) {
            std::this_thread::sleep_for(std::chrono::microseconds(150));
            bool quiet = ctl.nstarted.load() - ctl.nfinished.load() == (long)base.my_concurrency && !base.forwarder_busy;
            stable = quiet ? stable + 1 : 0;
        }
    };
    size_t next_release = 0;
    for (size_t i = 1; i + 1 < c.size(); i += 2) {
        int op = (int)c[i]; long v = (long)c[i + 1];
        if (op == 1) Q.try_put(v);
        else {
            bool any = false;
            { std::lock_guard<std::mutex> l(ctl.m); if (next_release < ctl.released.size()) { ctl.released[next_release++] = 1; any = true; } }
            if (any) { long want = (long)next_release; for (int k = 0; k < 20000 && ctl.nfinished.load() < want; ++k) std::this_thread::sleep_for(std::chrono::microseconds(100)); }
        }
        settle();
        o.put((long)base.my_concurrency); o.put((long)Q.size()); o.put(base.my_predecessors.empty() ? 0 : 1); o.put(base.forwarder_busy ? 1 : 0); o.put(ctl.nstarted.load());
    }
    o.put(-7);
    { std::lock_guard<std::mutex> l(ctl.m); for (long v : ctl.started) o.put(v); }
    // let everything finish
    std::atomic<int> waited{0};
    std::thread w([&] { g.wait_for_all(); waited = 1; });
    for (int guard = 0; guard < 100000 && !waited.load(); ++guard) {
        { std::lock_guard<std::mutex> l(ctl.m); for (auto& r : ctl.released) r = 1; }
        std::this_thread::sleep_for(std::chrono::microseconds(100));
    }
    w.join();
    long left = 0; long tmp; while (Q.try_get(tmp)) left++;
    o.word("LEFT"); o.put(left);
}

static int mt_run(int P, unsigned seed, int n, int limit, int succ) {
    tbb::global_control gc(tbb::global_control::max_allowed_parallelism, P);
    graph g;
    std::atomic<long> running{0}, over{0}, bodies{0};
    std::vector<std::atomic<int>> seen(n); for (auto& x : seen) x = 0;
    function_node<long, long> f(g, (size_t)limit, [&](long v) { long r = ++running; if (limit > 0 && r > limit) over++; seen[v]++; bodies++; for (volatile int k = 0; k < 300 + (int)(v % 7) * 200; ++k) {} --running; return v; });
    std::vector<std::vector<std::atomic<int>>> got(succ);
    std::vector<std::unique_ptr<function_node<long, continue_msg>>> sinks;
    for (int s = 0; s < succ; ++s) { got[s] = std::vector<std::atomic<int>>(n); for (auto& x : got[s]) x = 0;
        auto* gs = &got[s];
        sinks.emplace_back(new function_node<long, continue_msg>(g, (s % 2) ? (size_t)unlimited : (size_t)serial, [gs](long v) { (*gs)[v]++; return continue_msg(); }));
        make_edge(f, *sinks.back()); }
    std::vector<std::thread> th; int T = 1 + seed % 3;
    for (int t = 0; t < T; ++t) th.emplace_back([&, t] { for (int i = t; i < n; i += T) f.try_put(i); });
    for (auto& x : th) x.join();
    g.wait_for_all();
    long idle_bad = running.load() != 0 || bodies.load() != n;
    long notonce = 0, fan = 0;
    for (int i = 0; i < n; ++i) { if (seen[i] != 1) notonce++; for (int s = 0; s < succ; ++s) if (got[s][i] != 1) fan++; }
    std::printf("OVERLIMIT %ld NOTONCE %ld FANOUT %ld NOTIDLE %ld\n", over.load(), notonce, fan, idle_bad);
    return 0;
}

// a rejecting (or limited) successor among queueing ones: the queueing successors must still receive every output exactly once
static int mtmix_run(int P, unsigned seed, int n, int pos, int kind) {
    tbb::global_control gc(tbb::global_control::max_allowed_parallelism, P);
    graph g;
    function_node<long, long> src(g, unlimited, [](long v) { return v; });
    std::vector<std::atomic<int>> gs(n), gt(n); for (auto& x : gs) x = 0; for (auto& x : gt) x = 0;
    std::atomic<long> rej_seen{0};
    function_node<long, continue_msg, rejecting> R(g, serial, [&](long) { rej_seen++; for (volatile int k = 0; k < 20000; ++k) {} return continue_msg(); });
    limiter_node<long> L(g, 1);
    function_node<long, continue_msg> Lsink(g, serial, [&](long) { rej_seen++; for (volatile int k = 0; k < 20000; ++k) {} return continue_msg(); });
    function_node<long, continue_msg> S(g, serial, [&](long v) { gs[v]++; return continue_msg(); });
    function_node<long, continue_msg> T(g, unlimited, [&](long v) { gt[v]++; return continue_msg(); });
    auto connect_rej = [&] { if (kind == 0) make_edge(src, R); else { make_edge(src, L); make_edge(L, Lsink); make_edge(Lsink, L.decrementer()); } };
    if (pos == 0) { connect_rej(); make_edge(src, S); make_edge(src, T); }
    else if (pos == 1) { make_edge(src, S); connect_rej(); make_edge(src, T); }
    else { make_edge(src, S); make_edge(src, T); connect_rej(); }
    std::vector<std::thread> th; int Tn = 1 + seed % 2;
    for (int t = 0; t < Tn; ++t) th.emplace_back([&, t] { for (int i = t; i < n; i += Tn) { src.try_put(i); if (i % 16 == 0) std::this_thread::yield(); } });
    for (auto& x : th) x.join();
    g.wait_for_all();
    long lost_s = 0, lost_t = 0, dup = 0;
    for (int i = 0; i < n; ++i) { if (gs[i] == 0) lost_s++; if (gt[i] == 0) lost_t++; if (gs[i] > 1 || gt[i] > 1) dup++; }
    std::printf("LOSTQUEUEING %ld LOSTUNLIMITED %ld DUP %ld\n", lost_s, lost_t, dup);
    return 0;
}

// a limited REJECTING node fed by a buffering predecessor (queue_node): a rejected message stays in the queue, the edge flips to pull
// mode and the node must pull it when a slot frees — also when the last body finishes exactly between the rejection and the
// registration of the predecessor (then the node's forwarder task has to pull).  Rounds: the node is busy with `conc` messages whose
// bodies spin 0-3 us, further messages are put from inside the graph at about the time those bodies return; after every round
// wait_for_all() must mean idle: everything put was processed exactly once and nothing is left in the queue.
static void spin_ns(long ns) { auto end = std::chrono::steady_clock::now() + std::chrono::nanoseconds(ns); while (std::chrono::steady_clock::now() < end) {} }
static int mtpull_run(int P, unsigned seed, int rounds, int conc) {
    tbb::global_control gc(tbb::global_control::max_allowed_parallelism, P);
    graph g;
    std::atomic<long> processed{0}, in_body{0}, over{0}, dup{0}, started{0}; std::atomic<bool> hold{false}; std::atomic<long> spin_a{0};
    std::vector<std::atomic<char>> seen((size_t)rounds * 8 + 64); for (auto& x : seen) x = 0;
    queue_node<long> Q(g);
    function_node<long, long, rejecting> F(g, (size_t)conc, [&](long id) -> long {
        if (++in_body > conc) over++;
        if (seen[id].exchange(1)) dup++;
        started++;
        while (hold.load()) std::this_thread::yield();
        long s = spin_a.load(); if (s) spin_ns(s);
        ++processed; --in_body; return id;
    });
    make_edge(Q, F);
    struct kick { long id; long delay_ns; long base; };
    function_node<kick, continue_msg> K(g, unlimited, [&](const kick& k) -> continue_msg {
        auto limit = std::chrono::steady_clock::now() + std::chrono::milliseconds(20);
        while (started.load() < k.base && std::chrono::steady_clock::now() < limit) {}
        if (k.delay_ns) spin_ns(k.delay_ns);
        Q.try_put(k.id); return continue_msg();
    });
    long put = 0, next_id = 0;
    // preparation: the node is full and held, one more message is rejected -> the queue becomes a predecessor, the forwarder runs while the node is full
    hold = true;
    for (int i = 0; i < conc; ++i) { Q.try_put(next_id++); ++put; }
    for (int k = 0; k < 50000 && started.load() < conc; ++k) std::this_thread::yield();
    Q.try_put(next_id++); ++put;
    std::this_thread::sleep_for(std::chrono::milliseconds(20));
    hold = false;
    g.wait_for_all();
    long lost_round = -1;
    if (processed.load() != put) lost_round = 0;
    std::mt19937 rng(seed);
    for (int r = 1; r <= rounds && lost_round < 0; ++r) {
        long base = started.load();
        spin_a = (long)(rng() % 3000);
        for (int i = 0; i < conc; ++i) { Q.try_put(next_id++); ++put; }               // straight through the queue into the idle node
        int extra = 1 + (int)(rng() % 2);
        for (int i = 0; i < extra; ++i) { K.try_put(kick{next_id++, (long)(rng() % 3000), base + conc}); ++put; }   // arrive while / just after those bodies run
        g.wait_for_all();
        if (processed.load() != put) lost_round = r;
    }
    long stuck = 0; long tmp; while (Q.try_get(tmp)) stuck++;
    std::printf("NOTPROCESSED %ld LEFTINQUEUE %ld DUP %ld OVERLIMIT %ld INROUND %ld\n", put - processed.load(), stuck, dup.load(), over.load(), lost_round < 0 ? 0 : lost_round + 1);
    return 0;
}

// zoo: the other node kinds of the property.  (1) input_node -> limited function_node -> multifunction_node routing even/odd -> two queue_nodes: every produced
// value exactly once on the right port;  (2) continue_node with k predecessors fires once per k signals;  (3) async_node: wait_for_all does not return while a
// reserve_wait is outstanding, every result submitted through the gateway arrives once;  (4) after an exception in a body no further body starts once
// wait_for_all has thrown, and the graph is cancelled.
static int zoo_run(int P, unsigned seed, int n) {
    tbb::global_control gc(tbb::global_control::max_allowed_parallelism, P);
    std::mt19937 r(seed);
    long lostdup = 0, wrongport = 0, contbad = 0, asyncbad = 0, waitearly = 0, startedafter = 0, overlimit = 0;
    {   // (1)
        graph g; int next = 0; int lim = 1 + (int)(r() % 3);
        input_node<long> in(g, [&](tbb::flow_control& fc) -> long { if (next >= n) { fc.stop(); return 0; } return next++; });
        std::atomic<int> running{0};
        function_node<long, long> f(g, (size_t)lim, [&](long v) { if (++running > lim) overlimit++; for (volatile int k = 0; k < 300; ++k) {} --running; return v; });
        typedef multifunction_node<long, std::tuple<long, long>> mf_t;
        mf_t mf(g, unlimited, [](const long& v, mf_t::output_ports_type& ports) { if (v % 2 == 0) std::get<0>(ports).try_put(v); else std::get<1>(ports).try_put(v); });
        queue_node<long> q0(g), q1(g);
        make_edge(in, f); make_edge(f, mf); make_edge(output_port<0>(mf), q0); make_edge(output_port<1>(mf), q1);
        in.activate(); g.wait_for_all();
        std::vector<int> seen(n, 0); long x;
        while (q0.try_get(x)) { if (x % 2) wrongport++; if (x >= 0 && x < n) seen[x]++; }
        while (q1.try_get(x)) { if (x % 2 == 0) wrongport++; if (x >= 0 && x < n) seen[x]++; }
        for (int i = 0; i < n; ++i) if (seen[i] != 1) lostdup++;
    }
    {   // (2)
        graph g; int k = 1 + (int)(r() % 4); int rounds = 1 + (int)(r() % 20); std::atomic<int> fired{0};
        broadcast_node<continue_msg> start(g);
        std::vector<std::unique_ptr<function_node<continue_msg, continue_msg>>> preds;
        continue_node<continue_msg> c(g, [&](const continue_msg&) { fired++; return continue_msg(); });
        for (int i = 0; i < k; ++i) { preds.emplace_back(new function_node<continue_msg, continue_msg>(g, serial, [](const continue_msg&) { return continue_msg(); })); make_edge(start, *preds.back()); make_edge(*preds.back(), c); }
        for (int i = 0; i < rounds; ++i) { start.try_put(continue_msg()); g.wait_for_all(); if (fired.load() != i + 1) { contbad++; break; } }
    }
    {   // (3)
        graph g; typedef async_node<long, long> an_t; std::vector<std::thread> bg; std::mutex bgm; std::atomic<bool> released{false}; std::atomic<int> got{0};
        an_t a(g, unlimited, [&](const long& v, an_t::gateway_type& gw) { gw.reserve_wait(); an_t::gateway_type* pg = &gw;
            std::lock_guard<std::mutex> lk(bgm);
            bg.emplace_back([pg, v, &released] { std::this_thread::sleep_for(std::chrono::milliseconds(5 + v % 7)); pg->try_put(v * 10); if (v == 0) released = true; pg->release_wait(); }); });
        function_node<long, continue_msg> sink(g, serial, [&](long v) { if (v % 10 == 0) got++; return continue_msg(); });
        make_edge(a, sink);
        int m = 1 + (int)(r() % 6); for (int i = 0; i < m; ++i) a.try_put(i);
        g.wait_for_all();
        if (!released.load()) waitearly++;                        // returned while a reserve_wait was outstanding
        for (auto& t : bg) t.join();
        if (got.load() != m) asyncbad++;
    }
    {   // (4)
        graph g; std::atomic<long> started{0}; struct Boom {};
        function_node<long, long> f(g, serial, [&](long v) -> long { started++; if (v == 3) throw Boom(); for (volatile int k = 0; k < 2000; ++k) {} return v; });
        bool caught = false;
        try { for (int i = 0; i < 40; ++i) f.try_put(i); g.wait_for_all(); } catch (Boom&) { caught = true; }
        long s0 = started.load(); std::this_thread::sleep_for(std::chrono::milliseconds(5));
        if (started.load() != s0) startedafter++;
        if (!caught || !g.is_cancelled()) startedafter++;
    }
    std::printf("LOSTDUP %ld WRONGPORT %ld CONTINUE %ld ASYNC %ld WAITEARLY %ld STARTEDAFTER %ld OVERLIMIT %ld\n", lostdup, wrongport, contbad, asyncbad, waitearly, startedafter, overlimit);
    return 0;
}

// mode "latedge": senders that KEEP a message nobody took (input_node, buffering nodes) must offer it again when a successor registers later / again.
//   A  input_node active without successors, a pull (try_get) starts production, the item is cached; then make_edge -> every item processed once
//   B  input_node -> reserving join port whose partner never gets data (item rejected and kept); then make_edge to a second consumer -> all items flow there
//   C  input_node -> REJECTING serial function_node, `rounds` graphs of n items (edge flips between push and pull while the put task still holds the reservation)
//   D  queue / buffer / priority_queue / sequencer / overwrite / write_once node filled while they have no successor, then make_edge -> delivered
// output: LOSTA a DUPA b LOSTB c DUPB d LOSTC e DUPC f LATE g
static int latedge_run(int P, unsigned seed, int n, int rounds) {
    tbb::global_control gc(tbb::global_control::max_allowed_parallelism, P);
    long lostA = 0, dupA = 0, lostB = 0, dupB = 0, lostC = 0, dupC = 0, late = 0;
    auto tally = [&](std::vector<std::atomic<int>>& seen, long& lost, long& dup) { for (auto& x : seen) { if (x.load() == 0) lost++; else if (x.load() > 1) dup++; } };
    {   // A
        graph g; int next = 0; std::vector<std::atomic<int>> seen(n); for (auto& x : seen) x = 0;
        input_node<int> in(g, [&](tbb::flow_control& fc) -> int { if (next >= n) { fc.stop(); return -1; } return next++; });
        function_node<int, int> sink(g, serial, [&](int v) { seen[v]++; return v; });
        in.activate();
        int v = -1; if (in.try_get(v)) seen[v]++;
        g.wait_for_all();
        make_edge(in, sink);
        g.wait_for_all();
        tally(seen, lostA, dupA);
    }
    {   // B
        graph g; int next = 0; std::vector<std::atomic<int>> seen(n); for (auto& x : seen) x = 0;
        input_node<int> in(g, [&](tbb::flow_control& fc) -> int { if (next >= n) { fc.stop(); return -1; } return next++; });
        join_node<std::tuple<int, int>, reserving> j(g); queue_node<int> never(g);
        function_node<std::tuple<int, int>, int> jsink(g, serial, [&](const std::tuple<int, int>& t) { seen[std::get<0>(t)]++; return 0; });
        function_node<int, int> other(g, serial, [&](int v) { seen[v]++; return v; });
        make_edge(in, input_port<0>(j)); make_edge(never, input_port<1>(j)); make_edge(j, jsink);
        in.activate(); g.wait_for_all();
        make_edge(in, other); g.wait_for_all();
        tally(seen, lostB, dupB);
    }
    for (int r = 0; r < rounds; ++r) {   // C
        graph g; int next = 0; std::vector<std::atomic<int>> seen(n); for (auto& x : seen) x = 0;
        unsigned spin = (seed + r) % 5 * 40;
        input_node<int> in(g, [&](tbb::flow_control& fc) -> int { if (next >= n) { fc.stop(); return -1; } return next++; });
        function_node<int, int, rejecting> f(g, serial, [&](int v) { for (volatile unsigned k = 0; k < spin; ++k) {} seen[v]++; return v; });
        make_edge(in, f); in.activate(); g.wait_for_all();
        long l0 = lostC; tally(seen, lostC, dupC);
        if (lostC != l0) break;
    }
    {   // D
        graph g; std::atomic<long> got{0}, sum{0};
        auto mk = [&] { return new function_node<long, long>(g, serial, [&](long v) { got++; sum += v; return v; }); };
        queue_node<long> q(g); buffer_node<long> b(g); priority_queue_node<long> pq(g); sequencer_node<long> sq(g, [](const long& v) -> size_t { return (size_t)v; });
        overwrite_node<long> ow(g); write_once_node<long> wo(g);
        for (long i = 0; i < 5; ++i) { q.try_put(i); b.try_put(i); pq.try_put(i); sq.try_put(4 - i); }
        ow.try_put(7); ow.try_put(9); wo.try_put(3); wo.try_put(4);
        g.wait_for_all();
        std::unique_ptr<function_node<long, long>> s1(mk()), s2(mk()), s3(mk()), s4(mk()), s5(mk()), s6(mk());
        make_edge(q, *s1); g.wait_for_all(); if (got != 5) late++;
        make_edge(b, *s2); g.wait_for_all(); if (got != 10) late++;
        make_edge(pq, *s3); g.wait_for_all(); if (got != 15) late++;
        make_edge(sq, *s4); g.wait_for_all(); if (got != 20 || sum != 40) late++;
        make_edge(ow, *s5); g.wait_for_all(); if (got != 21 || sum != 49) late++;
        make_edge(wo, *s6); g.wait_for_all(); if (got != 22 || sum != 52) late++;
    }
    std::printf("LOSTA %ld DUPA %ld LOSTB %ld DUPB %ld LOSTC %ld DUPC %ld LATE %ld\n", lostA, dupA, lostB, dupB, lostC, dupC, late);
    return 0;
}

// mode "greset": a graph is run, reset (graph::reset with rf_reset_protocol / rf_reset_bodies; after a normal run, after a cancellation, after an exception) and run again:
// the second run behaves like the first - a continue_node with k predecessors connected by edges fires once per k signals, a limiter's continue_msg decrementer still counts,
// a function_node / queue pipeline delivers everything once.   output: CONT a (continue_node firings wrong) LIM b FLOW c
static int greset_run(unsigned seed) {
    std::mt19937 r(seed);
    long contbad = 0, limbad = 0, flowbad = 0;
    for (int variant = 0; variant < 6; ++variant) {
        int k = 2 + (int)(r() % 3);
        graph g; std::atomic<int> fired{0}, bran{0};
        broadcast_node<continue_msg> start(g);
        std::vector<std::unique_ptr<continue_node<continue_msg>>> mids;
        continue_node<continue_msg> join(g, [&](const continue_msg&) { fired++; return continue_msg(); });
        for (int i = 0; i < k; ++i) {
            mids.emplace_back(new continue_node<continue_msg>(g, [&, i, variant](const continue_msg&) { bran++; if (variant == 4 && i == 0 && bran.load() <= (int)mids.size()) throw 5; return continue_msg(); }));
            make_edge(start, *mids.back()); make_edge(*mids.back(), join);
        }
        auto round = [&](int expect_fired) { int f0 = fired.load(); start.try_put(continue_msg()); try { g.wait_for_all(); } catch (...) {} return fired.load() - f0 == expect_fired; };
        if (variant == 3) { g.cancel(); try { g.wait_for_all(); } catch (...) {} }
        else if (variant == 4) { round(0); }                       // one middle node throws: the graph is cancelled
        else if (!round(1)) contbad++;
        switch (variant % 3) { case 0: g.reset(); break; case 1: g.reset(rf_reset_bodies); break; default: g.reset(rf_reset_protocol); break; }
        if (!round(1)) contbad++;
        if (!round(1)) contbad++;
    }
    {   // limiter_node with a continue_msg decrementer connected by an edge
        graph g; std::atomic<int> got{0};
        limiter_node<int> lim(g, 2); function_node<int, continue_msg> f(g, serial, [&](int) { got++; return continue_msg(); });
        make_edge(lim, f); make_edge(f, lim.decrementer());
        auto feed = [&] { for (int i = 0; i < 6; ++i) { for (int tries = 0; tries < 1000 && !lim.try_put(i); ++tries) g.wait_for_all(); } g.wait_for_all(); };   // a refused put is repeated once the body has decremented
        feed();
        int g0 = got.load(); g.reset(); feed();
        if (g0 != 6 || got.load() != 12) limbad++;
    }
    {   // queue -> function pipeline
        graph g; std::atomic<int> got{0};
        queue_node<int> q(g); function_node<int, int> f(g, 1, [&](int v) { got++; return v; }); make_edge(q, f);
        for (int i = 0; i < 20; ++i) q.try_put(i); g.wait_for_all();
        g.reset(rf_reset_bodies); for (int i = 0; i < 20; ++i) q.try_put(i); g.wait_for_all();
        if (got.load() != 40) flowbad++;
    }
    std::printf("CONT %ld LIM %ld FLOW %ld\n", contbad, limbad, flowbad);
    return 0;
}

int main(int argc, char** argv) {
    std::string mode = argc > 1 ? argv[1] : "";
    if (mode == "seq") {
        tbb::global_control gc(tbb::global_control::max_allowed_parallelism, 12);
        std::vector<i128> c; Out o; Watchdog wd(60.0);
        while (read_case(c)) { wd.arm(&o); if (c[1] == 1) seq_run<queueing>(c, o); else seq_run<rejecting>(c, o); o.flush(); wd.disarm(); }
        return 0;
    }
    if (mode == "pullseq") {
        tbb::global_control gc(tbb::global_control::max_allowed_parallelism, 12);
        std::vector<i128> c; Out o; Watchdog wd(60.0);
        while (read_case(c)) { wd.arm(&o); pull_run(c, o); o.flush(); wd.disarm(); }
        return 0;
    }
    if (mode == "mtmix") return mtmix_run(atoi(argv[2]), (unsigned)atoi(argv[3]), atoi(argv[4]), atoi(argv[5]), atoi(argv[6]));
    if (mode == "greset") return greset_run((unsigned)atoi(argv[3]));
    if (mode == "latedge") return latedge_run(atoi(argv[2]), (unsigned)atoi(argv[3]), atoi(argv[4]), atoi(argv[5]));
    if (mode == "zoo") return zoo_run(atoi(argv[2]), (unsigned)atoi(argv[3]), atoi(argv[4]));
    if (mode == "mtpull") return mtpull_run(atoi(argv[2]), (unsigned)atoi(argv[3]), atoi(argv[4]), atoi(argv[5]));
    if (mode == "mt") return mt_run(atoi(argv[2]), (unsigned)atoi(argv[3]), atoi(argv[4]), atoi(argv[5]), atoi(argv[6]));
    return 2;
}
