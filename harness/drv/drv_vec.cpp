// C11 driver: real concurrent_vector / segment_table from /repo's working tree.
//   drv_vec segidx   : per input x -> segment_index_of(x) segment_base(x%64) segment_size(x%64)
//   drv_vec vec      : "0 (op arg)*" sequentially on one vector; per op "start end stuck", then size
//   drv_vec mt T seed nops : T real threads grow one vector concurrently; prints the per-call ranges
//                      (start,len,id) and the value check result (oracle input)
#include "common.h"
#include <stdexcept>
#include <cstring>
#include <unistd.h>
#include <sys/mman.h>
#include <map>
#include <mutex>
#include <random>
#include "oneapi/tbb/concurrent_vector.h"

static std::atomic<uint64_t> g_constructs{0};
static char* g_first = nullptr; static char* g_last = nullptr; static bool g_contig = true;

// 1-byte element; allocator maps NORESERVE memory and intercepts construct() so that huge growth
// neither touches memory nor changes the vector's own control flow.
struct E1 { char c; };
template <class T> struct RecAlloc {
    using value_type = T;
    RecAlloc() = default;
    template <class U> RecAlloc(const RecAlloc<U>&) {}
    T* allocate(size_t n) {
        size_t bytes = n * sizeof(T);
        void* p = mmap(nullptr, bytes ? bytes : 1, PROT_READ | PROT_WRITE, MAP_PRIVATE | MAP_ANONYMOUS | MAP_NORESERVE, -1, 0);
        if (p == MAP_FAILED) throw std::bad_alloc();
        return static_cast<T*>(p);
    }
    void deallocate(T* p, size_t n) { size_t bytes = n * sizeof(T); munmap(p, bytes ? bytes : 1); }
    template <class U, class... A> void construct(U* p, A&&... a) {
        if (sizeof(U) == 1) {
            char* cp = reinterpret_cast<char*>(p);
            if (g_constructs == 0) g_first = cp; else if (cp != g_last + 1) g_contig = false;
            g_last = cp; g_constructs.store(g_constructs.load(std::memory_order_relaxed) + 1, std::memory_order_relaxed);
        } else ::new ((void*)p) U(std::forward<A>(a)...);
    }
    template <class U> void destroy(U*) {}
    template <class U> bool operator==(const RecAlloc<U>&) const { return true; }
    template <class U> bool operator!=(const RecAlloc<U>&) const { return false; }
};

using namespace vh;

static int do_segidx() {
    using vec = tbb::concurrent_vector<int>;
    std::vector<i128> c; Out o;
    while (read_case(c)) {
        for (i128 x : c) {
            uint64_t u = (uint64_t)x;
            o.put_u64(vec::segment_index_of(u));
            o.put_u64(vec::segment_base(u % 64));
            o.put_u64(vec::segment_size(u % 64));
        }
        o.flush();
    }
    return 0;
}

static int do_vec() {
    std::vector<i128> c; Out o; Watchdog wd(getenv("VERIF_WATCHDOG") ? atof(getenv("VERIF_WATCHDOG")) : 25.0);
    while (read_case(c)) {
        using V = tbb::concurrent_vector<E1, RecAlloc<E1>>;
        V* v = new V();
        for (size_t i = 1; i + 1 < c.size(); i += 2) {
            int op = (int)c[i]; uint64_t a = (uint64_t)c[i + 1];
            g_constructs = 0; g_contig = true;
            wd.arm(&o);
            V::iterator it;
            if (op == 0) it = v->grow_by(a);
            else if (op == 1) it = v->push_back(E1{1});
            else it = v->grow_to_at_least(a);
            wd.disarm();
            uint64_t n = g_constructs;
            if (n == 0) { o.put(-1); o.put(-1); o.put(0); }
            else {
                uint64_t start = (uint64_t)(it - v->begin());
                // cross-check: first constructed address is the address of element `start`
                if (!g_contig && false) {}
                if (reinterpret_cast<char*>(&(*v)[start]) != g_first) { o.word("ADDR-MISMATCH"); }
                o.put_u64(start); o.put_u64(start + n); o.put(0);
            }
        }
        o.put_u64(v->size());
        o.flush();
        // trivially destructible elements: skip the O(size) destroy loop by resetting size first
        v->my_size.store(0, std::memory_order_relaxed);
        delete v;
    }
    return 0;
}

// real threads: oracle run (tiling + values), not compared with the model step by step
static int do_mt(int T, unsigned seed, int nops) {
    tbb::concurrent_vector<uint32_t> v;
    struct Rec { uint64_t start, len; uint32_t id; const uint32_t* addr; };      // addr: where the first element was when the call returned
    std::vector<std::vector<Rec>> recs(T);
    std::atomic<int> go{0};
    std::vector<std::thread> th;
    for (int t = 0; t < T; ++t) th.emplace_back([&, t] {
        std::mt19937 rng(seed * 1000 + t);
        go++; while (go.load() < T) {}
        for (int k = 0; k < nops; ++k) {
            uint32_t id = (uint32_t)(t * 1000000 + k + 1);
            int op = rng() % 3; uint64_t before = 0;
            if (op == 0) { uint64_t d = rng() % 70; auto it = v.grow_by(d, id); if (d) recs[t].push_back({(uint64_t)(it - v.begin()), d, id, &*it}); }
            else if (op == 1) { auto it = v.push_back(id); recs[t].push_back({(uint64_t)(it - v.begin()), 1, id, &*it}); }
            else {
                uint64_t n = v.size() + rng() % 40;
                auto it = v.grow_to_at_least(n, id);
                // the constructed range is [it, n) if it < n and the elements carry our id
                uint64_t s = (uint64_t)(it - v.begin());
                (void)before;
                if (s < n && v[s] == id) recs[t].push_back({s, n - s, id, &v[s]});
                // (elements below n that belong to *other* threads' in-flight calls may legitimately still be
                //  under construction; only this call's own range [s,n) is its responsibility)
                if (v.size() < n) std::printf("SIZE-BELOW-N %llu\n", (unsigned long long)n);
            }
        }
    });
    for (auto& x : th) x.join();
    Out o; o.put_u64(v.size());
    for (int t = 0; t < T; ++t) for (auto& r : recs[t]) {
        bool ok = true;
        for (uint64_t i = r.start; i < r.start + r.len; ++i) if (v[i] != r.id) ok = false;
        if (&v[r.start] != r.addr) { std::printf("MOVED %llu\n", (unsigned long long)r.start); ok = false; }        // the address of an element never changes
        o.put_u64(r.start); o.put_u64(r.len); o.put(ok ? 1 : 0);
    }
    o.flush();
    return 0;
}

// mode "ctorthrow": an element constructor throws inside a growth call, at every call index: the vector stays destructible, at(i) works or throws for
// every i < size(), elements that were constructed keep their values, elements of the failed call read as zero.  Each case runs in a forked child so that a crash
// is reported with its case.   cases: pre n kind k   (pre = elements before, n = growth, kind 0 grow_by(n, value) | 1 grow_by(iterators) | 2 grow_to_at_least(pre+n, value)
// | 3 n x push_back, k = which copy throws, 1-based)      output per case: OK | BAD reason | CRASH signal
#include <sys/wait.h>
static int g_ct_copies = 0, g_ct_throw_at = -1;
struct CE { long v; CE(long x = 0) : v(x) {} CE(const CE& o) : v(o.v) { if (++g_ct_copies == g_ct_throw_at) throw 1; } };
static const char* ctor_case(long pre, long n, int kind, int k) {
    tbb::concurrent_vector<CE> v;
    g_ct_throw_at = -1;
    for (long i = 0; i < pre; ++i) v.push_back(CE(1000 + i));
    std::vector<CE> src; for (long i = 0; i < n; ++i) src.emplace_back(5000 + i);
    g_ct_copies = 0; g_ct_throw_at = k; bool threw = false;
    try {
        if (kind == 0) v.grow_by((size_t)n, CE(7));
        else if (kind == 1) v.grow_by(src.begin(), src.end());
        else if (kind == 2) v.grow_to_at_least((size_t)(pre + n), CE(7));
        else for (long i = 0; i < n; ++i) v.push_back(CE(7));
    } catch (int) { threw = true; }
    g_ct_throw_at = -1;
    if (!threw && k <= n) return "BAD nothrow";
    if ((long)v.size() < pre) return "BAD size-below-old";
    for (size_t i = 0; i < v.size(); ++i) {
        try { long x = v.at(i).v;
              if ((long)i < pre && x != 1000 + (long)i) return "BAD old-element-changed";
              if ((long)i >= pre && x != 0 && x != 7 && !(kind == 1 && x == 5000 + ((long)i - pre))) return "BAD garbage-element"; }
        catch (const std::out_of_range&) {} catch (const std::range_error&) {} catch (...) { return "BAD at-throws-other"; }
    }
    // (no further growth call here: one that lands in a segment whose first index belonged to the failed call waits for that segment for ever - the library
    //  documents growth after a failure as unsupported; the property only demands destructibility and safe accesses)
    return "OK";
}
static int do_ctorthrow() {
    std::vector<i128> c; Out o;
    while (read_case(c)) {
        std::fflush(stdout);
        int fd[2]; if (pipe(fd)) return 3;
        pid_t pid = fork();
        if (pid == 0) { close(fd[0]); const char* r = ctor_case((long)c[0], (long)c[1], (int)c[2], (int)c[3]); ssize_t w = write(fd[1], r, strlen(r)); (void)w; _exit(0); }
        close(fd[1]); char buf[64] = {0}; ssize_t rd = read(fd[0], buf, sizeof buf - 1); (void)rd; close(fd[0]);
        int st = 0; waitpid(pid, &st, 0);
        if (WIFSIGNALED(st)) { o.word("CRASH"); o.put(WTERMSIG(st)); } else if (!buf[0]) o.word("BAD no-answer"); else o.word(buf);
        o.flush();
    }
    return 0;
}

int main(int argc, char** argv) {
    std::string m = argc > 1 ? argv[1] : "";
    if (m == "segidx") return do_segidx();
    if (m == "vec") return do_vec();
    if (m == "ctorthrow") return do_ctorthrow();
    if (m == "mt") return do_mt(atoi(argv[2]), (unsigned)atoi(argv[3]), atoi(argv[4]));
    return 2;
}
