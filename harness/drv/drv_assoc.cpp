// C12 driver: concurrent_unordered_set/multiset (split-ordered list) and concurrent_set/multiset (skip list), keys = long, hash(k) = k.
//   seq    : cases "multi bc (op key)*" op 1 insert / 3 find / 9 dump -> results + white-box dumps of the split-ordered list
//   skip   : cases "multi (key)*" -> sequential inserts into concurrent_set/multiset, then the structure oracle: per level the chain of keys
//            output: OK or BAD <reason>; (level-0 chain sorted, unique unless multi, level-i chain = nodes of height > i in order)
//   gate   : kind(0 unordered_set,1 unordered_multiset,2 set,3 multiset) bc npre pre-inserted-keys nthreads per thread (len (op key)*) -1 schedule
//            op 1 insert | 3 find(count) | 4 traverse (begin..end) ; output history + final contents
//   mt kind T seed n keys : real threads oracle
//   skipgate : step-level tie with SkipModel: a concurrent_skip_list (unique keys) whose node heights are scripted and whose nodes are numbered;
//            input = SkipModel.run_skip's; output = every access to my_max_height / a next(level) pointer in execution order, results, final chains
#include "drv/common.h"
#include "gate/gate.h"
#include <random>
#include <map>
#include <set>
#include <mutex>
#include "oneapi/tbb/concurrent_unordered_set.h"
#include "oneapi/tbb/concurrent_set.h"
using namespace vh;

struct IdH { std::size_t operator()(long k) const { return (std::size_t)k; } };
using USet = tbb::concurrent_unordered_set<long, IdH>;
using UMSet = tbb::concurrent_unordered_multiset<long, IdH>;
using OSet = tbb::concurrent_set<long>;
using OMSet = tbb::concurrent_multiset<long>;

template <class S> static void dump_sol(S& s, Out& o) {
    o.put_u64(s.my_bucket_count.load()); o.put_u64(s.my_size.load());
    std::vector<std::pair<unsigned long long, long>> nodes;
    for (auto* n = (typename S::node_ptr)&s.my_head; n != nullptr; n = n->next()) {
        if (n->is_dummy()) nodes.push_back({n->order_key(), -1});
        else nodes.push_back({n->order_key(), static_cast<typename S::value_node_ptr>(n)->value()});
    }
    o.put((long)nodes.size());
    for (auto& x : nodes) { o.put_u64(x.first); o.put(x.second); }
}

template <class S> static void seq_run(std::vector<i128>& c, Out& o) {
    S s((std::size_t)c[1]);
    for (size_t i = 2; i + 1 < c.size(); i += 2) {
        int op = (int)c[i]; long k = (long)c[i + 1];
        if (op == 9) dump_sol(s, o);
        else if (op == 1) o.put(s.insert(k).second ? 1 : 0);
        else o.put(s.find(k) != s.end() ? 1 : 0);
    }
}

template <class S> static void skip_check(S& s, bool multi, size_t n_inserted_distinct, size_t n_inserted, Out& o) {
    auto* head = s.my_head_ptr.load();
    if (!head) { o.word(n_inserted == 0 ? "OK" : "BAD nohead"); return; }
    std::vector<std::pair<long, size_t>> l0;   // (key, height)
    std::map<const void*, size_t> pos;
    for (auto* n = head->next(0); n; n = n->next(0)) { pos[n] = l0.size(); l0.push_back({n->value(), n->height()}); }
    for (size_t i = 1; i < l0.size(); ++i) { if (l0[i].first < l0[i - 1].first) { o.word("BAD unsorted"); return; } if (!multi && l0[i].first == l0[i - 1].first) { o.word("BAD duplicate"); return; } }
    if (l0.size() != (multi ? n_inserted : n_inserted_distinct)) { o.word("BAD count"); o.put((long)l0.size()); return; }
    if (s.size() != l0.size()) { o.word("BAD size"); return; }
    size_t maxh = s.my_max_height.load();
    for (size_t lev = 0; lev < head->height(); ++lev) {
        std::vector<size_t> chain;
        for (auto* n = head->next(lev); n; n = n->next(lev)) { if (!pos.count(n)) { o.word("BAD foreign node"); return; } chain.push_back(pos[n]); }
        std::vector<size_t> want;
        for (size_t i = 0; i < l0.size(); ++i) if (l0[i].second > lev) want.push_back(i);
        if (chain != want) { o.word("BAD level"); o.put((long)lev); return; }
        if (lev >= maxh && !chain.empty()) { o.word("BAD maxheight"); return; }
    }
    o.word("OK");
}

template <class S> static void gate_run(std::vector<i128>& c, bool multi, bool unordered) {
    gate::reset();
    size_t p = 1; std::size_t bc = (std::size_t)c[p++];
    S* s;
    if constexpr (std::is_same<S, USet>::value || std::is_same<S, UMSet>::value) s = new S(bc); else s = new S();
    struct Rec { int tid, op; long arg, res; long inv, resp; std::vector<long> seen; };
    std::vector<Rec> hist;
    int npre = (int)c[p++];      // keys inserted before the threads start
    for (int k = 0; k < npre; ++k) s->insert((long)c[p++]);
    int n = (int)c[p++];
    for (int t = 0; t < n; ++t) {
        int len = (int)c[p++]; std::vector<std::pair<int, long>> sc;
        for (int k = 0; k < len; ++k) { int op = (int)c[p++]; long a = (long)c[p++]; sc.push_back({op, a}); }
        gate::spawn([s, sc, t, &hist] {
            for (auto& oa : sc) {
                long inv = (long)gate::trace.size(); long res = 0; std::vector<long> seen;
                if (oa.first == 1) res = s->insert(oa.second).second ? 1 : 0;
                else if (oa.first == 3) res = (long)s->count(oa.second);
                else { for (auto it = s->begin(); it != s->end(); ++it) seen.push_back(*it); res = (long)seen.size(); }
                hist.push_back({t, oa.first, oa.second, res, inv, (long)gate::trace.size(), seen});
            }
        });
    }
    p++;
    std::vector<int> sched; for (; p < c.size(); ++p) sched.push_back((int)c[p]);
    bool ok = gate::run(sched, 60000);
    Out o;
    for (auto& r : hist) { o.put(r.tid); o.put(r.op); o.put(r.arg); o.put(r.res); o.put(r.inv); o.put(r.resp); o.put((long)r.seen.size()); for (long x : r.seen) o.put(x); }
    o.word("FIN"); o.put(ok ? 1 : 0);
    if (!ok) { o.word("HANG"); o.flush(); _exit(3); }
    o.word("LEFT"); for (auto it = s->begin(); it != s->end(); ++it) o.put(*it);
    o.word("SIZE"); o.put_u64(s->size());
    o.flush();
    delete s;
    (void)multi; (void)unordered;
}

template <class S> static int mt_run(int T, unsigned seed, int nops, int keys, bool multi) {
    S s;
    std::vector<std::atomic<long>> ins_ok(keys); for (auto& x : ins_ok) x = 0;
    std::atomic<long> find_fail{0}, trav_dup{0}, trav_missing{0}, unsorted{0};
    std::vector<std::thread> th;
    for (int t = 0; t < T; ++t) th.emplace_back([&, t] {
        std::mt19937 r(seed * 7 + t);
        for (int i = 0; i < nops; ++i) {
            long k = r() % keys; int op = r() % 8;
            if (op < 4) { if (s.insert(k).second) ins_ok[k]++; if (!s.count(k)) find_fail++; }
            else if (op < 7) { s.count(k); }
            else {
                // traversal: private keys inserted before it began must be seen exactly once; nothing twice (unique containers)
                long mine = keys + t * 100000 + i; s.insert(mine);
                std::map<long, int> seen; long prev = -1; bool sorted_ok = true;
                for (auto it = s.begin(); it != s.end(); ++it) { seen[*it]++; if (std::is_same<S, OSet>::value || std::is_same<S, OMSet>::value) { if (*it < prev) sorted_ok = false; prev = *it; } }
                if (!sorted_ok) unsorted++;
                if (seen[mine] != 1) trav_missing++;
                if (!multi) for (auto& kv : seen) if (kv.second > 1) { trav_dup++; break; }
            }
        }
    });
    for (auto& x : th) x.join();
    long bad_winner = 0;
    for (int k = 0; k < keys; ++k) { long c = (long)s.count(k); if (!multi) { if (ins_ok[k] > 1 || (ins_ok[k] == 1) != (c == 1) || c > 1) bad_winner++; } else if (c != ins_ok[k]) bad_winner++; }
    long n = 0; for (auto it = s.begin(); it != s.end(); ++it) n++;
    std::printf("WINNER %ld FINDFAIL %ld TRAVDUP %ld TRAVMISS %ld UNSORTED %ld SIZEDIFF %ld\n", bad_winner, find_fail.load(), trav_dup.load(), trav_missing.load(), unsorted.load(), (long)s.size() - n);
    return 0;
}

// ---- skipgate: scripted heights, numbered nodes, every next(level) word registered with the gate
static thread_local std::size_t g_next_height = 1;
static thread_local long g_next_id = 0;
struct ScriptGen { static constexpr std::size_t max_level = 32; std::size_t operator()() { return g_next_height; } };
static std::size_t g_node_hdr = 0;
template <class T> struct RegAlloc {
    using value_type = T;
    RegAlloc() = default;
    template <class U> RegAlloc(const RegAlloc<U>&) {}
    T* allocate(std::size_t n) {
        std::size_t sz = n * sizeof(T);
        char* p = (char*)std::malloc(sz);          // never freed: addresses are never reused within a case
        long id = g_next_id;
        gate::reg_region(p, sz, id + 1);
        for (std::size_t l = 0; g_node_hdr + 8 * (l + 1) <= sz; ++l) gate::reg_var(p + g_node_hdr + 8 * l, (int)(1000 + id * 40 + (long)l), true);
        return (T*)p;
    }
    void deallocate(T*, std::size_t) {}
    template <class U> bool operator==(const RegAlloc<U>&) const { return true; }
    template <class U> bool operator!=(const RegAlloc<U>&) const { return false; }
};
using SSet = tbb::detail::d2::concurrent_skip_list<tbb::detail::d2::set_traits<long, std::less<long>, ScriptGen, RegAlloc<long>, false>>;
using SMSet = tbb::detail::d2::concurrent_skip_list<tbb::detail::d2::set_traits<long, std::less<long>, ScriptGen, RegAlloc<long>, true>>;

template <class SSet> static void skipgate_run(std::vector<i128>& c) {
    gate::reset();
    g_node_hdr = sizeof(typename SSet::list_node_type);
    size_t p = 0; int nn = (int)c[p++];
    // auto mode (nn < 0): -nn nodes with ascending keys 0,1,2,.. and skip-list-like heights are pre-inserted first (ids 1..-nn), then E explicit nodes follow;
    // the output is then a summary (no access log, no chains): the structure is checked here
    int nauto = 0;
    std::vector<long> key; std::vector<std::size_t> hgt;
    if (nn < 0) {
        nauto = -nn; key.push_back(0); hgt.push_back(32);
        for (int i = 1; i <= nauto; ++i) { key.push_back(i - 1); hgt.push_back(std::min<std::size_t>(1 + (std::size_t)__builtin_ctz((unsigned)i), 12)); }
        int E = (int)c[p++]; for (int i = 0; i < E; ++i) { key.push_back((long)c[p++]); hgt.push_back((std::size_t)c[p++]); }
        nn = (int)key.size();
    } else { key.resize(nn); hgt.resize(nn); for (int i = 0; i < nn; ++i) { key[i] = (long)c[p++]; hgt[i] = (std::size_t)c[p++]; } }
    SSet* s = new SSet();
    gate::reg_var(&s->my_max_height, 1);
    g_next_id = 0; s->create_head_if_necessary();
    for (int id = 1; id <= nauto; ++id) { g_next_id = id; g_next_height = hgt[id]; s->insert(key[id]); }
    int np = (int)c[p++];
    for (int i = 0; i < np; ++i) { int id = (int)c[p++]; g_next_id = id; g_next_height = hgt[id]; s->insert(key[id]); }
    int nt = (int)c[p++];
    std::vector<std::vector<long>> results(nt);
    for (int t = 0; t < nt; ++t) {
        int len = (int)c[p++]; std::vector<std::array<long, 3>> sc;
        for (int k = 0; k < len; ++k) { long op = (long)c[p++], kk = (long)c[p++], x = (long)c[p++]; sc.push_back({op, kk, x}); }
        gate::spawn([s, sc, t, &results, &hgt] {
            for (auto& o : sc) {
                long r;
                if (o[0] == 1) { g_next_id = o[2]; g_next_height = hgt[o[2]]; r = s->insert(o[1]).second ? 1 : 0; }
                else r = s->find(o[1]) != s->end() ? 1 : 0;
                results[t].push_back(o[0]); results[t].push_back(o[1]); results[t].push_back(r);
            }
        });
    }
    p++;
    std::vector<int> sched; for (; p < c.size(); ++p) sched.push_back((int)c[p]);
    bool ok = gate::run(sched, 200000);
    Out o;
    auto dec = [](unsigned long long v) -> long { return v == 0 ? 0 : (long)(v / 1000000) - 1; };
    for (auto& e : gate::trace) {
        if (e.var < 1 || nauto) continue;
        bool ptr = e.var >= 1000;
        o.put(e.tid); o.put(e.var); o.put(e.kind);
        o.put(e.kind == 2 ? 0 : (ptr ? dec(e.before) : (long)e.before)); o.put(ptr ? dec(e.after) : (long)e.after); o.put(e.ok);
    }
    o.put(-7); o.put(ok ? 1 : 0);
    if (!ok) { o.word("HANG"); o.flush(); _exit(3); }
    o.put((long)s->my_max_height.load());
    for (int t = 0; t < nt; ++t) { o.put(-8); for (long x : results[t]) o.put(x); }
    // final chains: node ids by address
    std::map<const void*, long> ids;
    for (auto& r : gate::regions) ids[(const void*)r.base] = (long)r.label - 1;
    auto* head = s->my_head_ptr.load();
    if (nauto) {
        std::vector<long> l0; std::map<const void*, size_t> pos; long sortbad = 0, levelbad = 0;
        for (auto* n = head->next(0); n && l0.size() < 10000000; n = n->next(0)) { pos[n] = l0.size(); if (!l0.empty() && n->value() < l0.back()) sortbad++; l0.push_back(n->value()); }
        for (std::size_t lev = 1; lev < 32; ++lev) {
            long last = -1; size_t cnt = 0, want = 0; bool bad = false; long guard = 0;
            for (auto* n = head->next(lev); n && guard < 10000000; n = n->next(lev), ++guard) { if (!pos.count(n) || (long)pos[n] <= last) { bad = true; break; } last = (long)pos[n]; cnt++; }
            for (auto& r : gate::regions) if (r.label != 1 && (r.size - g_node_hdr) / 8 > lev && pos.count((const void*)r.base)) want++;
            if (bad || cnt != want) levelbad++;
        }
        o.put(-10); o.put(levelbad); o.put(sortbad); o.put((long)l0.size());
        o.flush(); return;
    }
    for (std::size_t lev = 0; lev < 32; ++lev) {
        auto* n = head->next(lev);
        if (!n) continue;
        o.put(-9); o.put((long)lev);
        long guard = 0;
        for (; n && guard < 100000; n = n->next(lev), ++guard) o.put(ids.count(n) ? ids[n] : -1000);
    }
    o.flush();
}

int main(int argc, char** argv) {
    std::string mode = argc > 1 ? argv[1] : "";
    std::vector<i128> c; Out o;
    if (mode == "seq") { while (read_case(c)) { if (c[0] == 1) seq_run<UMSet>(c, o); else seq_run<USet>(c, o); o.flush(); } return 0; }
    if (mode == "skip") {
        while (read_case(c)) {
            bool multi = c[0] == 1; std::set<long> d; size_t n = 0;
            if (multi) { OMSet s; for (size_t i = 1; i < c.size(); ++i) { s.insert((long)c[i]); d.insert((long)c[i]); n++; } skip_check(s, true, d.size(), n, o); }
            else { OSet s; for (size_t i = 1; i < c.size(); ++i) { s.insert((long)c[i]); d.insert((long)c[i]); n++; } skip_check(s, false, d.size(), n, o); }
            o.flush();
        }
        return 0;
    }
    if (mode == "skipgate") { while (read_case(c)) skipgate_run<SSet>(c); return 0; }
    if (mode == "skipgatem") { while (read_case(c)) skipgate_run<SMSet>(c); return 0; }   // multiset: oracle only (the model covers unique keys)
    if (mode == "gate") {
        while (read_case(c)) {
            switch ((int)c[0]) { case 0: gate_run<USet>(c, false, true); break; case 1: gate_run<UMSet>(c, true, true); break; case 2: gate_run<OSet>(c, false, false); break; default: gate_run<OMSet>(c, true, false); }
        }
        return 0;
    }
    if (mode == "mt") {
        int kind = atoi(argv[2]), T = atoi(argv[3]); unsigned seed = (unsigned)atoi(argv[4]); int n = atoi(argv[5]), keys = atoi(argv[6]);
        switch (kind) { case 0: return mt_run<USet>(T, seed, n, keys, false); case 1: return mt_run<UMSet>(T, seed, n, keys, true); case 2: return mt_run<OSet>(T, seed, n, keys, false); default: return mt_run<OMSet>(T, seed, n, keys, true); }
    }
    return 2;
}
