// C02 driver.
//   seq : cases "nwaiters nnotifiers schedule..." : ONE OS thread plays all logical threads on a real r1::concurrent_monitor
//         with counting wait nodes (notify() counts, wait()/reset() consume or record "would block"); one schedule entry =
//         one call (prepare_wait / predicate / commit_wait / cancel_wait / condition set / emptiness check / notify_all).
//         output: events (tid code value), then -7, per thread done flags, epoch
//   mt T seed rounds : real threads, real sleep_nodes: set-then-notify discipline, every waiter must return (watchdog)
//   enq P n : tasks enqueued into an arena nobody waits in must run
#include "common.h"
#include <random>
#include <algorithm>
#include "tbb/concurrent_monitor.h"
#include "oneapi/tbb/task_arena.h"
#include "oneapi/tbb/concurrent_queue.h"
#include "oneapi/tbb/global_control.h"
#include "oneapi/tbb/task_group.h"
#include "oneapi/tbb/parallel_for.h"
using namespace vh;
using namespace tbb::detail::r1;

struct tnode : wait_node<std::uintptr_t> {
    long sem = 0; bool blocked = false;
    tnode() : wait_node<std::uintptr_t>(0) {}
    void init() override { my_initialized = true; }
    void wait() override { if (sem > 0) { --sem; blocked = false; } else blocked = true; }
    void reset() override { my_skipped_wakeup = false; --sem; }
    void notify() override { ++sem; }
};
enum { WStart, WCheck, WCommit, WSleep, WCancelDone, WDone, NSet, NCheckEmpty, NLock, NDone };

static int do_seq() {
    std::vector<i128> c; Out o; Watchdog wd(20.0);
    while (read_case(c)) {
        wd.arm(&o);
        int nw = (int)c[0], nn = (int)c[1];
        concurrent_monitor mon;
        std::vector<tnode> nodes(nw); std::vector<int> pc(nw + nn);
        for (int i = 0; i < nw; ++i) pc[i] = WStart; for (int i = nw; i < nw + nn; ++i) pc[i] = NSet;
        bool cond = false;
        auto ev = [&](int t, int code, long v) { o.put(t); o.put(code); o.put(v); };
        for (size_t k = 2; k < c.size(); ++k) {
            int t = (int)c[k]; if (t < 0 || t >= nw + nn) continue;
            if (t < nw) {
                tnode& n = nodes[t];
                switch (pc[t]) {
                case WStart: {
                    bool sk = n.my_initialized && n.my_skipped_wakeup;
                    if (sk && n.sem < 1) { ev(t, 5, 0); break; }
                    mon.prepare_wait(n); pc[t] = WCheck; ev(t, 1, sk ? 1 : 0); } break;
                case WCheck: ev(t, 2, cond ? 1 : 0); pc[t] = cond ? WCancelDone : WCommit; break;
                case WCommit: {
                    bool r = mon.commit_wait(n);
                    if (r) { ev(t, 3, 1); if (n.blocked) pc[t] = WSleep; else { ev(t, 4, 1); pc[t] = WDone; } }
                    else { ev(t, 3, 0); ev(t, 6, n.my_skipped_wakeup ? 1 : 0); pc[t] = WStart; } } break;
                case WSleep: if (n.sem > 0) { n.wait(); ev(t, 4, 1); pc[t] = WDone; } else ev(t, 5, 1); break;
                case WCancelDone: mon.cancel_wait(n); ev(t, 6, n.my_skipped_wakeup ? 1 : 0); pc[t] = WDone; break;
                default: break;
                }
            } else {
                switch (pc[t]) {
                case NSet: cond = true; ev(t, 7, 1); pc[t] = NCheckEmpty; break;
                case NCheckEmpty: { bool e = mon.my_waitset.empty(); ev(t, 8, e ? 1 : 0); pc[t] = e ? NDone : NLock; } break;
                case NLock: { long cnt = (long)mon.my_waitset.size(); mon.notify_all(); ev(t, 9, cnt); pc[t] = NDone; } break;
                default: break;
                }
            }
        }
        o.put(-7);
        for (int i = 0; i < nw + nn; ++i) o.put((pc[i] == WDone || pc[i] == NDone) ? 1 : 0);
        o.put((long)mon.my_epoch.load());
        // leave no node in the monitor's list
        for (int i = 0; i < nw; ++i) if (nodes[i].my_is_in_list.load()) mon.cancel_wait(nodes[i]);
        o.flush(); wd.disarm();
    }
    return 0;
}

// seq1: like seq, but waiters carry a context (the "address" they wait on) and notifiers call notify_one_relaxed(predicate) for one address
//   input: nwaiters nnotifiers, waiter contexts..., notifier addresses..., schedule
static int do_seq1() {
    std::vector<i128> c; Out o; Watchdog wd(20.0);
    while (read_case(c)) {
        wd.arm(&o);
        int nw = (int)c[0], nn = (int)c[1];
        concurrent_monitor mon;
        std::vector<tnode> nodes(nw); std::vector<int> pc(nw + nn); std::vector<long> addr(nn);
        for (int i = 0; i < nw; ++i) { pc[i] = WStart; nodes[i].my_context = (std::uintptr_t)(long)c[2 + i]; }
        for (int i = 0; i < nn; ++i) { pc[nw + i] = NSet; addr[i] = (long)c[2 + nw + i]; }
        bool cond[8] = {false};
        auto ev = [&](int t, int code, long v) { o.put(t); o.put(code); o.put(v); };
        for (size_t k = 2 + nw + nn; k < c.size(); ++k) {
            int t = (int)c[k]; if (t < 0 || t >= nw + nn) continue;
            if (t < nw) {
                tnode& n = nodes[t];
                switch (pc[t]) {
                case WStart: {
                    bool sk = n.my_initialized && n.my_skipped_wakeup;
                    if (sk && n.sem < 1) { ev(t, 5, 0); break; }
                    mon.prepare_wait(n); pc[t] = WCheck; ev(t, 1, sk ? 1 : 0); } break;
                case WCheck: { bool cnd = cond[n.my_context & 7]; ev(t, 2, cnd ? 1 : 0); pc[t] = cnd ? WCancelDone : WCommit; } break;
                case WCommit: {
                    bool r = mon.commit_wait(n);
                    if (r) { ev(t, 3, 1); if (n.blocked) pc[t] = WSleep; else { ev(t, 4, 1); pc[t] = WDone; } }
                    else { ev(t, 3, 0); ev(t, 6, n.my_skipped_wakeup ? 1 : 0); pc[t] = WStart; } } break;
                case WSleep: if (n.sem > 0) { n.wait(); ev(t, 4, 1); pc[t] = WDone; } else ev(t, 5, 1); break;
                case WCancelDone: mon.cancel_wait(n); ev(t, 6, n.my_skipped_wakeup ? 1 : 0); pc[t] = WDone; break;
                default: break;
                }
            } else {
                long a = addr[t - nw];
                switch (pc[t]) {
                case NSet: cond[a & 7] = true; ev(t, 7, 1); pc[t] = NCheckEmpty; break;
                case NCheckEmpty: { bool e = mon.my_waitset.empty(); ev(t, 8, e ? 1 : 0); pc[t] = e ? NDone : NLock; } break;
                case NLock: {
                    std::vector<long> before(nw); for (int i = 0; i < nw; ++i) before[i] = nodes[i].sem;
                    mon.notify_one_relaxed([a](std::uintptr_t ctx) { return (long)ctx == a; });
                    long who = -1; for (int i = 0; i < nw; ++i) if (nodes[i].sem != before[i]) who = i;
                    ev(t, 9, who); pc[t] = NDone; } break;
                default: break;
                }
            }
        }
        o.put(-7);
        for (int i = 0; i < nw + nn; ++i) o.put((pc[i] == WDone || pc[i] == NDone) ? 1 : 0);
        o.put((long)mon.my_epoch.load());
        for (int i = 0; i < nw; ++i) if (nodes[i].my_is_in_list.load()) mon.cancel_wait(nodes[i]);
        o.flush(); wd.disarm();
    }
    return 0;
}

static int do_mt(int T, unsigned seed, int rounds) {
    // T waiters and 1-2 notifiers per round on one monitor; flag set before notify; every waiter must come back
    Watchdog wd(30.0); Out o; wd.arm(&o);
    concurrent_monitor mon;
    long lost = 0;
    for (int r = 0; r < rounds; ++r) {
        std::atomic<bool> flag{false}; std::atomic<int> returned{0};
        std::vector<std::thread> th;
        for (int t = 0; t < T; ++t) th.emplace_back([&, t] {
            std::mt19937 g(seed * 131 + r * 17 + t); for (volatile unsigned k = 0; k < g() % 3000; ++k) {}
            mon.wait([&] { return flag.load(std::memory_order_relaxed); }, sleep_node<std::uintptr_t>(std::uintptr_t(t)));
            returned++;
        });
        std::thread n([&] { std::mt19937 g(seed * 977 + r); for (volatile unsigned k = 0; k < g() % 3000; ++k) {} flag.store(true, std::memory_order_relaxed); mon.notify_all(); });
        for (auto& x : th) x.join(); n.join();
        if (returned != T) lost++;
    }
    wd.disarm();
    std::printf("LOST %ld\n", lost);
    return 0;
}

static int do_enq(int P, int n) {
    Watchdog wd(30.0); Out o; wd.arm(&o);
    tbb::global_control gc(tbb::global_control::max_allowed_parallelism, P);
    long notrun = 0;
    for (int r = 0; r < n; ++r) {
        tbb::task_arena a(2 + r % 3, r % 2);     // with and without a reserved external slot
        std::atomic<int> ran{0};
        a.enqueue([&] { ran++; });
        if (r % 3 == 0) a.enqueue([&] { ran++; });
        int want = (r % 3 == 0) ? 2 : 1;
        for (int k = 0; k < 20000 && ran.load() < want; ++k) std::this_thread::sleep_for(std::chrono::microseconds(100));   // nobody waits in the arena
        if (ran.load() < want) notrun++;
        for (int k = 0; k < 100000 && ran.load() < want; ++k) std::this_thread::sleep_for(std::chrono::microseconds(100));
    }
    wd.disarm();
    std::printf("NOTRUN %ld\n", notrun);
    return 0;
}

// enqprio P pc leftover: an enqueued task runs although nobody waits in its arena, also when ANOTHER arena (priority pc: 0 high / 1 normal / 2 low) has ordinary worker
// demand and the worker budget is P - 1 (P = 1: only the mandatory worker exists).   output: NOTRUN n
static int do_enqprio(int P, int pc, int leftover) {
    Watchdog wd(60.0); Out o; wd.arm(&o);
    tbb::global_control gc(tbb::global_control::max_allowed_parallelism, P);
    long notrun = 0;
    tbb::task_arena::priority prios[3] = { tbb::task_arena::priority::high, tbb::task_arena::priority::normal, tbb::task_arena::priority::low };
    for (int r = 0; r < 3; ++r) {
        tbb::task_arena C(4, 1, prios[pc]); tbb::task_arena T(2 + r % 2, r % 2, tbb::task_arena::priority::normal);
        std::atomic<int> stop{0}, inside{0}, ran{0};
        std::thread X;
        if (leftover || P > 1) {       // with a regular worker available it would get stuck in the competitor's never-ending tasks: that is the user's doing, not the library's
            C.execute([&] { tbb::parallel_for(0, 2000, [](int) { for (volatile int k = 0; k < 2000; ++k) {} }); });
        } else {
            X = std::thread([&] { C.execute([&] {
                tbb::task_group tg; for (int i = 0; i < 6; ++i) tg.run([&] { while (!stop.load()) std::this_thread::yield(); });
                inside = 1; while (!stop.load()) std::this_thread::yield(); tg.wait(); }); });
            while (!inside.load()) std::this_thread::yield();
            std::this_thread::sleep_for(std::chrono::milliseconds(20));
        }
        T.enqueue([&] { ran = 1; });
        for (int k = 0; k < 40000 && !ran.load(); ++k) std::this_thread::sleep_for(std::chrono::microseconds(100));      // 4 s, nobody waits in T
        if (!ran.load()) notrun++;
        stop = 1; if (X.joinable()) X.join();
        for (int k = 0; k < 100000 && !ran.load(); ++k) std::this_thread::sleep_for(std::chrono::microseconds(100));
        if (!ran.load()) { T.execute([] {}); }
    }
    wd.disarm();
    std::printf("NOTRUN %ld\n", notrun);
    return 0;
}

// enqafter A R kind: fire-and-forget enqueue into an arena that has been USED before (its demand bookkeeping went through "out of work"): arena(A, R);
// per round: (kind 0) a thread spawns inside the arena and waits there ~idle ms with nothing to do (a deferred task_handle keeps the group open), (kind 1) runs a
// parallel_for there and leaves, (kind 2) enqueues and waits for it; then, from outside, enqueue with NOBODY joining the arena: the task must run exactly once within 6 s.
// output: NOTRUN n TWICE m
static int do_enqafter(int A, int R, int kind) {
    Watchdog wd(120.0); Out o; wd.arm(&o);
    long notrun = 0, twice = 0;
    tbb::task_arena arena(A, R);
    for (int round = 0; round < 3; ++round) {
        if (kind == 0) {
            arena.execute([&] {
                tbb::task_group tg; std::atomic<int> ran{0};
                tbb::task_handle pending = tg.defer([] {});
                tg.run([&] { ran++; });
                std::thread helper([&pending] { std::this_thread::sleep_for(std::chrono::milliseconds(250)); pending = tbb::task_handle(); });
                tg.wait(); helper.join();
            });
        } else if (kind == 1) {
            arena.execute([&] { tbb::parallel_for(0, 500, [](int) { for (volatile int k = 0; k < 500; ++k) {} }); });
            std::this_thread::sleep_for(std::chrono::milliseconds(100));
        } else {
            std::atomic<int> r0{0}; arena.enqueue([&] { r0 = 1; }); for (int k = 0; k < 60000 && !r0.load(); ++k) std::this_thread::sleep_for(std::chrono::microseconds(100));
            std::this_thread::sleep_for(std::chrono::milliseconds(100));
        }
        std::atomic<int> runs{0};
        arena.enqueue([&] { runs++; });
        for (int k = 0; k < 60000 && !runs.load(); ++k) std::this_thread::sleep_for(std::chrono::microseconds(100));
        std::this_thread::sleep_for(std::chrono::milliseconds(20));
        if (runs.load() == 0) { notrun++; std::printf("NOTRUN %ld TWICE %ld\n", notrun, twice); std::fflush(stdout); std::_Exit(0); }   // the arena still holds the task: leave at once
        if (runs.load() > 1) twice++;
    }
    wd.disarm();
    std::printf("NOTRUN %ld TWICE %ld\n", notrun, twice);
    return 0;
}

// execwait P K R W: threads that sleep in task_arena::execute because every slot of arena(K, R) is taken are woken when a slot is released, also when no worker can serve
// their delegated functor: max_allowed_parallelism = P (P = 1: no workers at all; P = 2: the one worker is parked in a long task of another arena).
// K threads occupy the arena (sit inside execute), W more call execute and go to sleep; the occupants leave one by one: every waiter's functor must have run within
// 4 s of the moment enough slots were free.   output: STUCK n
static int do_execwait(int P, int K, int R, int W) {
    Watchdog wd(120.0); Out o; wd.arm(&o);
    tbb::global_control gc(tbb::global_control::max_allowed_parallelism, P);
    long stuck = 0;
    for (int round = 0; round < 3; ++round) {
        std::atomic<int> park{1}, parked{0};
        tbb::task_arena other(2, 1); std::thread parker;
        if (P > 1) {   // occupy the only worker: it runs a long task enqueued into another arena
            other.enqueue([&] { parked = 1; while (park.load()) std::this_thread::yield(); });
            for (int k = 0; k < 40000 && !parked.load(); ++k) std::this_thread::sleep_for(std::chrono::microseconds(100));
        }
        tbb::task_arena A(K, R);
        std::atomic<int> inside{0}, leave{0}, ran{0};
        std::vector<std::thread> occ, wait;
        for (int i = 0; i < K; ++i) occ.emplace_back([&, i] { A.execute([&] { inside++; while (leave.load() <= i) std::this_thread::yield(); }); });
        for (int k = 0; k < 40000 && inside.load() < K; ++k) std::this_thread::sleep_for(std::chrono::microseconds(100));
        for (int w = 0; w < W; ++w) wait.emplace_back([&] { A.execute([&] { ran++; }); });
        std::this_thread::sleep_for(std::chrono::milliseconds(150));                 // the waiters have found the arena full and gone to sleep
        for (int i = 0; i < K; ++i) { leave = i + 1; std::this_thread::sleep_for(std::chrono::milliseconds(30)); }
        for (int k = 0; k < 40000 && ran.load() < W; ++k) std::this_thread::sleep_for(std::chrono::microseconds(100));
        if (ran.load() < W) { stuck += W - ran.load(); std::printf("STUCK %ld\n", stuck); std::fflush(stdout); std::_Exit(0); }
        for (auto& x : occ) x.join(); for (auto& x : wait) x.join();
        park = 0;
        if (P > 1) other.execute([] {});
    }
    wd.disarm();
    std::printf("STUCK %ld\n", stuck);
    return 0;
}

// blocked producers of a full concurrent_bounded_queue, some of them aborted (their tickets become holes), later producers waiting
// behind the holes: every pop that frees a slot must wake the producer waiting for it
static int do_bq(int cap, int nA, int nB, unsigned seed) {
    Watchdog wd(25.0); Out o; wd.arm(&o);
    tbb::concurrent_bounded_queue<int> q; q.set_capacity(cap);
    for (int i = 0; i < cap; ++i) q.push(i);
    auto wait_size = [&](long want) { for (int k = 0; k < 20000 && (long)q.size() < want; ++k) std::this_thread::sleep_for(std::chrono::microseconds(100)); std::this_thread::sleep_for(std::chrono::milliseconds(2)); };
    std::atomic<int> aborted{0}, finished{0};
    std::vector<std::thread> A, B;
    for (int i = 0; i < nA; ++i) { A.emplace_back([&, i] { try { q.push(1000 + i); finished++; } catch (tbb::user_abort&) { aborted++; } }); wait_size(cap + 1 + i); }
    q.abort();
    for (auto& t : A) t.join();
    for (int i = 0; i < nB; ++i) { B.emplace_back([&, i] { try { q.push(2000 + i); finished++; } catch (tbb::user_abort&) { aborted++; } }); wait_size(cap + 1 + i); }
    std::vector<int> got;
    for (int k = 0; k < cap + nB; ++k) { int v = -1; q.pop(v); got.push_back(v); std::this_thread::sleep_for(std::chrono::milliseconds(1 + seed % 3)); }
    for (auto& t : B) t.join();          // a producer that is never woken keeps the watchdog running
    wd.disarm();
    long bad = 0; for (int i = 0; i < cap; ++i) if (got[i] != i) bad++;
    std::vector<int> rest(got.begin() + cap, got.end()); std::sort(rest.begin(), rest.end()); for (int i = 0; i < nB; ++i) if (rest[i] != 2000 + i) bad++;
    std::printf("BADITEMS %ld ABORTED %d\n", bad, aborted.load() - nA);
    return 0;
}

int main(int argc, char** argv) {
    std::string mode = argc > 1 ? argv[1] : "";
    if (mode == "seq") return do_seq();
    if (mode == "seq1") return do_seq1();
    if (mode == "mt") return do_mt(atoi(argv[2]), (unsigned)atoi(argv[3]), atoi(argv[4]));
    if (mode == "enq") return do_enq(atoi(argv[2]), atoi(argv[3]));
    if (mode == "execwait") return do_execwait(atoi(argv[2]), atoi(argv[3]), atoi(argv[4]), atoi(argv[5]));
    if (mode == "enqafter") return do_enqafter(atoi(argv[2]), atoi(argv[3]), atoi(argv[4]));
    if (mode == "enqprio") return do_enqprio(atoi(argv[2]), atoi(argv[3]), atoi(argv[4]));
    if (mode == "bq") return do_bq(atoi(argv[2]), atoi(argv[3]), atoi(argv[4]), (unsigned)atoi(argv[5]));
    return 2;
}
