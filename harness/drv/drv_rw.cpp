// C08 driver (gate, component scope): real tbb::spin_rw_mutex / spin_mutex under a given interleaving.
// input per case: nthreads, per thread (len, ops...), -1, schedule (thread ids).
// output: the trace (7 ints per event) and a final 1/0 (all threads finished); compiled with the prelude.
#include "drv/common.h"
#include "gate/gate.h"
#include "oneapi/tbb/spin_rw_mutex.h"
#include "oneapi/tbb/spin_mutex.h"
using namespace vh;

static int g_writers = 0, g_readers = 0; static long long g_wepoch = 0;   // critical-section bookkeeping (oracle); token-serialised

static bool applicable(int h, int o) {
    if (h == 0) return o == 1 || o == 2 || o == 4 || o == 5;
    if (h == 1) return o == 6 || o == 7;
    return o == 3 || o == 8;
}

template <class M>
static void thread_body(M* m, std::vector<int> script) {
    int held = 0;
    long long epoch_seen = 0;
    for (int o : script) {
        if (!applicable(held, o)) continue;
        long long res = 1;
        switch (o) {
        case 1: m->lock(); held = 2; break;
        case 2: res = m->try_lock(); held = res ? 2 : 0; break;
        case 3: g_writers--; m->unlock(); held = 0; break;
        case 4: m->lock_shared(); held = 1; break;
        case 5: res = m->try_lock_shared(); held = res ? 1 : 0; break;
        case 6: g_readers--; m->unlock_shared(); held = 0; break;
        case 7: g_readers--; res = m->upgrade(); held = 2; break;
        case 8: g_writers--; m->downgrade(); held = 1; break;
        }
        // mutual exclusion oracle, evaluated at the moment the operation has returned
        if ((o == 1 || (o == 2 && res) || o == 7)) {
            if (g_writers || g_readers) gate::note(50, g_writers, g_readers);
            // upgrade returned true => no writer may have run since this thread's read acquisition
            if (o == 7 && res && g_wepoch != epoch_seen) gate::note(52, g_wepoch, epoch_seen);
            g_writers++; g_wepoch++;
        }
        if ((o == 4 || (o == 5 && res) || o == 8)) { if (g_writers) gate::note(51, g_writers, g_readers); g_readers++; epoch_seen = g_wepoch; }
        gate::note(o, res);
        (void)epoch_seen;
    }
}

int main(int argc, char** argv) {
    std::vector<i128> c;
    while (read_case(c)) {
        gate::reset(); g_writers = g_readers = 0; g_wepoch = 0;
        tbb::spin_rw_mutex* m = new tbb::spin_rw_mutex();
        gate::reg_var(&m->m_state, 1);
        size_t p = 0; int n = (int)c[p++];
        for (int t = 0; t < n; ++t) {
            int len = (int)c[p++]; std::vector<int> sc;
            for (int k = 0; k < len; ++k) sc.push_back((int)c[p++]);
            gate::spawn([m, sc] { thread_body(m, sc); });
        }
        p++;  // -1
        std::vector<int> sched;
        for (; p < c.size(); ++p) sched.push_back((int)c[p]);
        bool ok = gate::run(sched, 2000);
        std::string s; char buf[160];
        for (auto& e : gate::trace) {
            if (e.kind == 199) continue;
            snprintf(buf, sizeof buf, "%d %d %d %d %llu %llu %d ", e.tid, e.var, e.kind, e.order, e.before, e.after, e.ok); s += buf;
        }
        std::printf("%s%d%s\n", s.c_str(), ok ? 1 : 0, ok ? "" : " HANG");
        std::fflush(stdout);
        if (!ok) _exit(3);
        delete m;
    }
    return 0;
}
