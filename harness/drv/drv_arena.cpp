// C16 oracle driver (real threads, real library): several task_arenas, external threads entering through execute(),
// enqueued work, observers, optional global_control limit.  Every body samples current_thread_index()/max_concurrency()
// and the set of threads active in its arena.  input per case: seed K T L rounds ; output: "viol <n> <first-code> stats..."
//   codes: 1 index out of range  2 two threads share a slot index  3 more threads inside than max_concurrency
//          4 worker on a reserved slot  5 observer entry/exit unbalanced  6 more workers than the global limit allows
#include "common.h"
#include <random>
#include <mutex>
#include <map>
#include "oneapi/tbb/task_arena.h"
#include "oneapi/tbb/parallel_for.h"
#include "oneapi/tbb/global_control.h"
#include "oneapi/tbb/task_scheduler_observer.h"
#include "oneapi/tbb/task_group.h"
using namespace vh;

static thread_local bool tl_external = false;
static thread_local int tl_obs_depth[8];
static std::atomic<long> g_viol{0}; static std::atomic<int> g_first{0};
static void viol(int code) { if (g_viol.fetch_add(1) == 0) g_first = code; }

struct ArenaInfo {
    tbb::task_arena* a; int maxc; int reserved;
    std::atomic<std::uintptr_t> owner[64]; std::atomic<int> depth[64];
    std::atomic<int> inside{0}; std::atomic<int> peak{0};
};
static ArenaInfo g_ar[8];
static std::atomic<int> g_workers_in_body{0}; static std::atomic<int> g_limit{0}; static std::atomic<int> g_worker_peak{0};
static std::atomic<int> g_enq_outstanding{0}; static std::atomic<int> g_enq_ever{0};
// execute() into an arena whose slots are all taken by other external threads is delegated: the library enqueues it internally, which is 'enqueued work' for the mandatory worker
static std::atomic<bool> g_deleg_possible{false};

struct Obs : tbb::task_scheduler_observer {
    int id; std::atomic<long> entries{0}, exits{0};
    Obs(tbb::task_arena& a, int i) : tbb::task_scheduler_observer(a), id(i) { observe(true); }
    void on_scheduler_entry(bool) override { entries++; tl_obs_depth[id]++; }
    void on_scheduler_exit(bool) override { exits++; if (--tl_obs_depth[id] < 0) viol(5); }
};

static void body(int k, unsigned spin) {
    ArenaInfo& A = g_ar[k];
    int idx = tbb::this_task_arena::current_thread_index();
    int mc = tbb::this_task_arena::max_concurrency();
    int extra = A.maxc == 1 ? 1 : 0;   // the one-thread arena's mandatory worker
    if (idx < 0 || idx >= A.maxc + extra || mc > A.maxc + extra) { viol(1); return; }
    std::uintptr_t me = (std::uintptr_t)pthread_self();
    std::uintptr_t prev = A.owner[idx].load();
    bool outer = false;
    if (prev == me) A.depth[idx]++;
    else {
        std::uintptr_t exp = 0;
        if (!A.owner[idx].compare_exchange_strong(exp, me)) { viol(2); return; }
        A.depth[idx] = 1; outer = true;
        int in = ++A.inside; int pk = A.peak.load(); while (in > pk && !A.peak.compare_exchange_weak(pk, in)) {}
        // one extra worker is granted to a one-thread arena with enqueued work
        if (in > A.maxc + (A.maxc == 1 ? 1 : 0)) viol(3);
        if (!tl_external && idx < A.reserved) viol(4);
        if (!tl_external) {
            int w = ++g_workers_in_body; int wp = g_worker_peak.load(); while (w > wp && !g_worker_peak.compare_exchange_weak(wp, w)) {}
            int L = g_limit.load();
            if (L > 0) { int allowed = L - 1; if (allowed == 0 && (g_enq_ever.load() > 0 || g_deleg_possible.load())) allowed = 1;   /* the mandatory worker stays until its arena runs out of work */ if (w > allowed) viol(6); }
        }
    }
    volatile unsigned x = 0; for (unsigned i = 0; i < spin; ++i) x += i;
    if (outer) { if (!tl_external) --g_workers_in_body; --A.inside; A.depth[idx] = 0; A.owner[idx] = 0; }
    else A.depth[idx]--;
}

// mode "mandatory": max_allowed_parallelism = 1.  A task enqueued into an arena of P >= 2 slots gets the one mandatory worker.  While it runs,
// spawned (not enqueued) tasks sit in the arena and the calling thread waits, plainly or inside this_task_arena::isolate (so it idles in the
// scheduler and reports the arena out of enqueued work).  When all enqueued work is long finished the limit must hold again: only the caller
// executes a parallel_for in that arena.   input: seed P isolate(0/1) nspawn   output: FOREIGN <iterations run by other threads in the
// last two of three quiet measurements> LOST <tasks not run>
static int do_mandatory() {
    std::vector<i128> c; Out o; Watchdog wd(60.0);
    while (read_case(c)) {
        unsigned seed = (unsigned)c[0]; int P = (int)c[1]; bool iso = c[2] != 0; int nspawn = (int)c[3];
        std::mt19937 rng(seed);
        wd.arm(&o);
        long lost = 0; int worst_late = 0;
        {
            tbb::global_control gc(tbb::global_control::max_allowed_parallelism, 1);
            tbb::task_arena a(P);
            auto foreign_iterations = [&] {
                std::atomic<int> foreign{0}; const std::thread::id me = std::this_thread::get_id();
                a.execute([&] { tbb::parallel_for(0, 200, [&](int) { if (std::this_thread::get_id() != me) ++foreign;
                    auto t0 = std::chrono::steady_clock::now(); while (std::chrono::steady_clock::now() - t0 < std::chrono::microseconds(150)) {} }); });
                return foreign.load(); };
            std::atomic<bool> e_started{false}, f_done{false}; std::atomic<int> x_done{0};
            int hold_ms = 100 + (int)(rng() % 300);
            a.execute([&] {
                tbb::task_group tg, tg2;
                for (int i = 0; i < nspawn; ++i) tg.run([&] { ++x_done; });
                a.enqueue([&] { tg2.run([&] { f_done = true; }); e_started = true; std::this_thread::sleep_for(std::chrono::milliseconds(hold_ms)); });
                while (!e_started) std::this_thread::yield();
                if (iso) tbb::this_task_arena::isolate([&] { tg2.wait(); }); else tg2.wait();
                tg.wait();
            });
            if (x_done != nspawn || !f_done) lost = 1;
            for (int m = 0; m < 3; ++m) {
                std::this_thread::sleep_for(std::chrono::milliseconds(250));      // all enqueued work is finished; the mandatory worker has left
                int f = foreign_iterations();
                if (m > 0 && f > worst_late) worst_late = f;
            }
        }
        wd.disarm();
        o.word("FOREIGN"); o.put(worst_late); o.word("LOST"); o.put(lost); o.flush();
    }
    return 0;
}

// mode "isolate": a thread that waits inside this_task_arena::isolate executes only tasks spawned within the same isolation scope.
// outer parallel_for bodies each open an isolated region with an inner parallel_for; while a thread is inside the region of outer iteration i
// it must not start another outer body nor an inner body of another outer iteration.   input: seed P N M pre   output: OUTERINISO x FOREIGNINNER y LOST z
static thread_local int tl_iso_depth = 0; static thread_local long tl_iso_owner = -1;
static int do_isolate() {
    std::vector<i128> c; Out o; Watchdog wd(60.0);
    while (read_case(c)) {
        unsigned seed = (unsigned)c[0]; int P = (int)c[1]; long N = (long)c[2], M = (long)c[3]; int pre = c.size() > 4 ? (int)c[4] : 0;
        std::atomic<long> outer_in_iso{0}, foreign_inner{0}, done{0};
        tbb::task_arena other(2);
        wd.arm(&o);
        tbb::task_arena a(P);
        a.execute([&] {
            tbb::parallel_for(0L, N, [&](long i) {
                if (tl_iso_depth > 0) outer_in_iso++;                       // an outer task taken while waiting inside an isolated region
                tbb::this_task_arena::isolate([&] {
                    long saved = tl_iso_owner; tl_iso_owner = i; tl_iso_depth++;
                    // what the thread does inside the region before it spawns and waits (none of it may end the isolation)
                    switch (pre) {
                    case 1: a.execute([] {}); break;                                              // re-entrant execute on the arena it is already in
                    case 2: other.execute([] { tbb::parallel_for(0, 4, [](int) {}); }); break;    // a trip into another arena and back
                    case 3: tbb::this_task_arena::isolate([] { tbb::parallel_for(0, 4, [](int) {}); }); break;   // a nested region
                    case 4: { tbb::task_group tg; tg.run_and_wait([] {}); } break;
                    case 5: a.execute([&] { tbb::task_group tg; tg.run([] {}); tg.wait(); }); break;
                    default: break;
                    }
                    tbb::parallel_for(0L, M, [&, i](long j) {
                        if (tl_iso_depth > 0 && tl_iso_owner != i) foreign_inner++;   // inner task of another region taken inside this one
                        volatile unsigned x = 0; for (unsigned k = 0; k < 200 + (unsigned)((seed + i + j) % 7) * 300; ++k) x += k;
                        done++;
                    }, tbb::simple_partitioner());
                    tl_iso_depth--; tl_iso_owner = saved;
                });
            }, tbb::simple_partitioner());
        });
        wd.disarm();
        o.word("OUTERINISO"); o.put(outer_in_iso.load()); o.word("FOREIGNINNER"); o.put(foreign_inner.load()); o.word("LOST"); o.put(N * M - done.load()); o.flush();
    }
    return 0;
}

int main(int argc, char** argv) {
    if (argc > 1 && std::string(argv[1]) == "isolate") return do_isolate();
    if (argc > 1 && std::string(argv[1]) == "mandatory") return do_mandatory();
    std::vector<i128> c; Out o; Watchdog wd(120.0);
    while (read_case(c)) {
        unsigned seed = (unsigned)c[0]; int K = (int)c[1], T = (int)c[2], L = (int)c[3], rounds = (int)c[4];
        g_viol = 0; g_first = 0; g_worker_peak = 0; g_limit = 0; g_enq_ever = 0;
        std::mt19937 rng(seed);
        std::vector<Obs*> obs;
        for (int k = 0; k < K; ++k) {
            int mc = 1 + rng() % 6; int res = rng() % (mc + 1); if (rng() % 3 == 0) res = 1; if (res > mc) res = mc;
            g_ar[k].a = new tbb::task_arena(mc, res); g_ar[k].maxc = mc; g_ar[k].reserved = res; g_ar[k].inside = 0; g_ar[k].peak = 0;
            for (int i = 0; i < 64; ++i) { g_ar[k].owner[i] = 0; g_ar[k].depth[i] = 0; }
            g_ar[k].a->initialize();
            obs.push_back(new Obs(*g_ar[k].a, k));
        }
        g_deleg_possible = false; for (int k = 0; k < K; ++k) if (g_ar[k].maxc < T) g_deleg_possible = true;
        wd.arm(&o);
        {
            std::unique_ptr<tbb::global_control> gc;
            if (L > 0) { gc.reset(new tbb::global_control(tbb::global_control::max_allowed_parallelism, (size_t)L)); g_limit = L; }
            std::vector<std::thread> th;
            for (int t = 0; t < T; ++t) th.emplace_back([&, t] {
                tl_external = true;
                std::mt19937 r(seed * 977 + t);
                for (int it = 0; it < rounds; ++it) {
                    int k = r() % K; unsigned spin = 3000 + r() % 30000; int n = 1 + r() % 300; if (r() % 5 == 0) { n = 3000; spin = 20000; }
                    bool fully_reserved = g_ar[k].reserved >= g_ar[k].maxc && g_ar[k].maxc >= 2;   // no worker can ever join: enqueue needs a waiting external thread
                    if (r() % 4 == 0 && !fully_reserved) {
                        g_enq_outstanding++; g_enq_ever++;
                        g_ar[k].a->enqueue([k, spin] { body(k, spin); g_enq_outstanding--; });
                    } else {
                        g_ar[k].a->execute([&] { tbb::parallel_for(0, n, [&](int) { body(k, spin); }); });
                    }
                }
            });
            for (auto& x : th) x.join();
            // drain enqueued work
            for (int k = 0; k < K; ++k) g_ar[k].a->execute([&] { tbb::task_group tg; tg.run_and_wait([] {}); });
            auto t0 = std::chrono::steady_clock::now();
            while (g_enq_outstanding.load() > 0 && std::chrono::duration<double>(std::chrono::steady_clock::now() - t0).count() < 30) std::this_thread::yield();
            if (g_enq_outstanding.load() > 0) viol(7);   // enqueued work never ran
            g_limit = 0;
        }
        wd.disarm();
        for (auto* ob : obs) ob->observe(false);
        std::this_thread::sleep_for(std::chrono::milliseconds(20));
        o.word("viol"); o.put(g_viol.load()); o.put(g_first.load());
        o.word("workerpeak"); o.put(g_worker_peak.load());
        for (int k = 0; k < K; ++k) { o.put(g_ar[k].maxc); o.put(g_ar[k].reserved); o.put(g_ar[k].peak.load()); }
        o.flush();
        for (auto* ob : obs) delete ob;
        for (int k = 0; k < K; ++k) { g_ar[k].a->terminate(); delete g_ar[k].a; }
    }
    return 0;
}
