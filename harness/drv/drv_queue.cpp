// C09 driver.  (compiled with the atomic prelude for mode "gate"; the other modes run free)
//   qidx           : tickets -> lane index(k), lane ticket k & -n_queue of the real queue representation
//   gate           : concurrent_queue<int> under a given interleaving; prints the invocation/response history
//   bgate          : concurrent_bounded_queue<int> (try_push/try_pop) under a given interleaving; counter trace + history
//   mt Q T seed n  : real threads, Q=0 concurrent_queue / 1 concurrent_bounded_queue(cap); FIFO / conservation oracle
//   abortwb        : white-box replay of the abort finding on concurrent_bounded_queue (deterministic)
#include "drv/common.h"
#include <functional>
#include <algorithm>
#include <random>
#include "gate/gate.h"
#include <random>
#include <map>
#include "oneapi/tbb/concurrent_queue.h"
using namespace vh;

static int do_qidx() {
    using R = tbb::concurrent_queue<int>::queue_representation_type;
    std::vector<i128> c; Out o;
    while (read_case(c)) {
        for (i128 x : c) { size_t k = (size_t)x; o.put_u64(R::index(k)); o.put_u64(k & -R::n_queue); }
        o.flush();
    }
    return 0;
}

// gate: nthreads, per thread (len, (op arg)*), -1, schedule.   op 1 v = push(v) | 2 0 = try_pop
// output: per completed op "tid op arg result inv resp" (result: popped value or -1 for empty; 0 for push), then FIN 0/1
static int do_gate() {
    std::vector<i128> c;
    while (read_case(c)) {
        gate::reset();
        tbb::concurrent_queue<int>* q = new tbb::concurrent_queue<int>();
        struct Rec { int tid, op; long arg, res; long inv, resp; };
        std::vector<Rec> hist; 
        size_t p = 0; int n = (int)c[p++];
        for (int t = 0; t < n; ++t) {
            int len = (int)c[p++]; std::vector<std::pair<int, long>> sc;
            for (int k = 0; k < len; ++k) { int op = (int)c[p++]; long a = (long)c[p++]; sc.push_back({op, a}); }
            gate::spawn([q, sc, t, &hist] {
                for (auto& oa : sc) {
                    long inv = (long)gate::trace.size();
                    long res = 0;
                    if (oa.first == 1) q->push((int)oa.second);
                    else { int v = -1; res = q->try_pop(v) ? v : -1; }
                    hist.push_back({t, oa.first, oa.second, res, inv, (long)gate::trace.size()});
                }
            });
        }
        p++;
        std::vector<int> sched; for (; p < c.size(); ++p) sched.push_back((int)c[p]);
        bool ok = gate::run(sched, 20000);
        Out o;
        for (auto& r : hist) { o.put(r.tid); o.put(r.op); o.put(r.arg); o.put(r.res); o.put(r.inv); o.put(r.resp); }
        o.word("FIN"); o.put(ok ? 1 : 0);
        if (ok) { o.word("LEFT"); int v; long left = 0; while (q->try_pop(v)) { o.put(v); left++; } }
        if (!ok) { o.word("HANG"); o.flush(); _exit(3); }
        o.flush();
        delete q;
    }
    return 0;
}

// bgate: cap, nthreads, per thread (len, (op arg)*), -1, schedule.   op 3 v = try_push(v) | 2 0 = try_pop   on a
// concurrent_bounded_queue<int> of capacity cap.  output: EV <7 ints>* for every access to head_counter (var 1) /
// tail_counter (var 2) and every completion note, then HIST <6 ints>* FIN ok LEFT contents
static int do_bgate() {
    std::vector<i128> c;
    while (read_case(c)) {
        gate::reset();
        auto* q = new tbb::concurrent_bounded_queue<int>();
        size_t p = 0; long cap = (long)c[p++]; q->set_capacity(cap);
        gate::reg_var(&q->my_queue_representation->head_counter, 1);
        gate::reg_var(&q->my_queue_representation->tail_counter, 2);
        struct Rec { int tid, op; long arg, res; long inv, resp; };
        std::vector<Rec> hist;
        int n = (int)c[p++];
        for (int t = 0; t < n; ++t) {
            int len = (int)c[p++]; std::vector<std::pair<int, long>> sc;
            for (int k = 0; k < len; ++k) { int op = (int)c[p++]; long a = (long)c[p++]; sc.push_back({op, a}); }
            gate::spawn([q, sc, t, &hist] {
                for (auto& oa : sc) {
                    long inv = (long)gate::trace.size();
                    long res = 0;
                    if (oa.first == 3) res = q->try_push((int)oa.second) ? 1 : 0;
                    else { int v = -1; res = q->try_pop(v) ? v : -1; }
                    gate::note(oa.first, oa.first == 3 ? res : (res == -1 ? 0 : 1));
                    hist.push_back({t, oa.first, oa.second, res, inv, (long)gate::trace.size()});
                }
            });
        }
        p++;
        std::vector<int> sched; for (; p < c.size(); ++p) sched.push_back((int)c[p]);
        bool ok = gate::run(sched, 20000);
        Out o;
        o.word("EV");
        for (auto& e : gate::trace) {
            if (e.kind == 199) continue;
            if (e.var != 1 && e.var != 2 && e.kind < 100) continue;
            o.put(e.tid); o.put(e.var); o.put(e.kind); o.put(e.order); o.put_u64(e.before); o.put_u64(e.after); o.put(e.ok);
        }
        o.word("HIST");
        for (auto& r : hist) { o.put(r.tid); o.put(r.op); o.put(r.arg); o.put(r.res); o.put(r.inv); o.put(r.resp); }
        o.word("FIN"); o.put(ok ? 1 : 0);
        if (ok) { o.word("LEFT"); int v; while (q->try_pop(v)) o.put(v); }
        if (!ok) { o.word("HANG"); o.flush(); _exit(3); }
        o.flush();
        delete q;
    }
    return 0;
}

template <class Q> static int mt_run(Q& q, int T, unsigned seed, int nops, bool bounded, long cap) {
    std::atomic<long> bad_order{0}, dup{0}, overcap{0}, pushes_done{0}, pops_started{0}; std::atomic<int> producers_done{0};
    int P = (T + 1) / 2, C = T - P; if (C == 0) C = 1;
    std::vector<std::vector<long>> got(C);
    std::vector<std::thread> th;
    for (int p = 0; p < P; ++p) th.emplace_back([&, p] { for (int i = 0; i < nops; ++i) { q.push(((long)p << 32) | i); long pd = ++pushes_done; long ps = pops_started.load();
            /* items stored at the moment pushes_done was read >= pd - ps (pops_started only grows) */ if (bounded && pd - ps > cap) overcap++; } producers_done++; });
    for (int cth = 0; cth < C; ++cth) th.emplace_back([&, cth] {
        std::mt19937 r(seed + cth);
        for (;;) { long v; pops_started++; if (q.try_pop(v)) got[cth].push_back(v); else if (producers_done.load() == P) { pops_started++; if (!q.try_pop(v)) break; got[cth].push_back(v); } else if (r() % 8 == 0) std::this_thread::yield(); }
    });
    for (auto& x : th) x.join();
    std::map<long, int> seen; long total = 0;
    for (int cth = 0; cth < C; ++cth) { std::map<long, long> last; for (long v : got[cth]) { long p = v >> 32, i = v & 0xffffffff; if (last.count(p) && last[p] >= i) bad_order++; last[p] = i; if (seen[v]++) dup++; total++; } }
    long lost = (long)P * nops - total;
    std::printf("ORDER %ld DUP %ld LOST %ld OVERCAP %ld\n", bad_order.load(), dup.load(), lost, overcap.load());
    return 0;
}

// white-box replay of: T1 blocked in pop (ticket 0) is aborted; before T1's handler runs head_counter--, another pop takes
// ticket 1.  T1's two counter operations are executed by hand exactly as internal_pop does them.
static int do_abortwb() {
    tbb::concurrent_bounded_queue<int> q;
    auto* rep = q.my_queue_representation;
    rep->head_counter++;                       // T1: target = head_counter++  (ticket 0), would now block: queue empty
    std::atomic<int> got{-1}; std::atomic<int> started{0};
    std::thread M([&] { started = 1; int v = -1; q.pop(v); got = v; });   // takes ticket 1 and blocks
    while (!started.load()) std::this_thread::yield();
    for (int i = 0; i < 2000 && rep->head_counter.load() < 2; ++i) std::this_thread::sleep_for(std::chrono::milliseconds(1));
    rep->head_counter--;                       // T1's abort handler: head_counter--  (gives back "a" ticket)
    q.push(100);                               // ticket 0: nobody holds it any more
    long size_after_first = (long)q.size();
    q.push(200);                               // ticket 1: delivered to M
    for (int i = 0; i < 2000 && got.load() == -1; ++i) std::this_thread::sleep_for(std::chrono::milliseconds(1));
    int first_delivered = got.load();
    if (first_delivered == -1) { std::printf("ABORTWB nodelivery\n"); std::fflush(stdout); _exit(0); }
    M.join();
    std::printf("ABORTWB first_delivered %d size_after_first_push %ld\n", first_delivered, size_after_first);
    std::fflush(stdout);
    _exit(0);   // the queue is wedged by construction: a further pop would spin for ever
}

// bmixed: non-blocking calls while blocking calls are parked.  K consumers block in pop() on an empty bounded queue (head_counter runs ahead of
// tail_counter): try_pop must report empty at once; then K+2 pushes: the parked pops get the first K items, try_pop the other two in order,
// then empty again.  Mirror image: the queue is full, K producers block in push(): try_push must fail at once, pops deliver in push order.
static int do_bmixed(int K, long cap, unsigned seed) {
    std::mt19937 rng(seed);
    long stuck = 0, wrong = 0, order = 0;
    auto timed = [&](std::function<int()> f, int& res) {            // returns false if f does not return within 2 s
        std::atomic<int> done{0}; std::atomic<int> r{0};
        std::thread t([&] { r = f(); done = 1; });
        for (int i = 0; i < 2000 && !done.load(); ++i) std::this_thread::sleep_for(std::chrono::milliseconds(1));
        if (!done.load()) { std::printf("STUCK 1 WRONG 0 ORDER 0\n"); std::fflush(stdout); _exit(0); }
        t.join(); res = r.load(); return true;
    };
    {   // consumers parked
        tbb::concurrent_bounded_queue<long> q; q.set_capacity(cap + K + 2);
        std::vector<long> got(K, -1); std::vector<std::thread> th;
        for (int k = 0; k < K; ++k) th.emplace_back([&, k] { long v = -1; q.pop(v); got[k] = v; });
        auto* rep = q.my_queue_representation;
        for (int i = 0; i < 3000 && (long)rep->head_counter.load() < K; ++i) std::this_thread::sleep_for(std::chrono::milliseconds(1));
        std::this_thread::sleep_for(std::chrono::milliseconds(2 + rng() % 5));
        int r = -1; long v = -7;
        timed([&] { return q.try_pop(v) ? 1 : 0; }, r);
        if (r != 0) wrong++;                                          // empty queue: try_pop must fail
        for (long i = 1; i <= K + 2; ++i) q.push(i);
        for (auto& x : th) x.join();
        std::vector<long> s(got); std::sort(s.begin(), s.end());
        for (int k = 0; k < K; ++k) if (s[k] != k + 1) order++;      // the parked pops hold the first K tickets
        long a = -1, b = -1; int r1 = 0, r2 = 0, r3 = 1;
        timed([&] { return q.try_pop(a) ? 1 : 0; }, r1); timed([&] { return q.try_pop(b) ? 1 : 0; }, r2);
        if (!r1 || !r2 || a != K + 1 || b != K + 2) order++;
        long c = -1; timed([&] { return q.try_pop(c) ? 1 : 0; }, r3); if (r3 != 0) wrong++;
    }
    {   // producers parked
        tbb::concurrent_bounded_queue<long> q; q.set_capacity(cap);
        for (long i = 1; i <= cap; ++i) q.push(i);
        std::vector<std::thread> th;
        for (int k = 0; k < K; ++k) th.emplace_back([&, k] { q.push(1000 + k); });
        auto* rep = q.my_queue_representation;
        for (int i = 0; i < 3000 && (long)rep->tail_counter.load() < cap + K; ++i) std::this_thread::sleep_for(std::chrono::milliseconds(1));
        std::this_thread::sleep_for(std::chrono::milliseconds(2 + rng() % 5));
        int r = -1; timed([&] { return q.try_push(5L) ? 1 : 0; }, r);
        if (r != 0) wrong++;                                          // full queue: try_push must fail
        for (long i = 1; i <= cap; ++i) { long v = -1; int rr = 0; timed([&] { q.pop(v); return 1; }, rr); if (v != i) order++; }
        std::vector<long> rest;
        for (int k = 0; k < K; ++k) { long v = -1; int rr = 0; timed([&] { q.pop(v); return 1; }, rr); rest.push_back(v); }   // each pop frees the slot of one parked producer
        for (auto& x : th) x.join();
        long v; if (q.try_pop(v)) order++;
        std::sort(rest.begin(), rest.end());
        if ((long)rest.size() != K) order++; else for (int k = 0; k < K; ++k) if (rest[k] != 1000 + k) order++;
    }
    std::printf("STUCK %ld WRONG %ld ORDER %ld\n", stuck, wrong, order);
    return 0;
}

// mode "bthrow K variant seed": blocked calls must complete as soon as items / space appear, also around operations that FAIL with an exception.
//   (a) K consumers parked in pop(); a push whose copy constructor throws (it used up a ticket); then K good push / try_push / emplace (variant): every consumer returns
//       with one of the good values within 3 s;  (b) the same with the failing push BETWEEN the good ones;
//   (c) K producers parked in push() on a full queue; a pop whose assignment throws (the slot is freed all the same); then pops: every producer returns, nothing lost.
// output: STUCK x LOST y EXTRA z
struct TE {
    long v = 0;
    TE() = default; explicit TE(long x) : v(x) {}
    TE(const TE& o) : v(o.v) { if (o.v == -666) throw 1; }
    TE(TE&& o) : v(o.v) { if (o.v == -666) throw 1; }
    TE& operator=(const TE& o) { if (o.v == -777) throw 2; v = o.v; return *this; }
    TE& operator=(TE&& o) { if (o.v == -777) throw 2; v = o.v; return *this; }
};
static int do_bthrow(int K, int variant, unsigned seed) {
    std::mt19937 rng(seed);
    long stuck = 0, lost = 0, extra = 0;
    auto wait_all = [&](std::vector<std::atomic<int>>& done) {
        for (int i = 0; i < 3000; ++i) { bool all = true; for (auto& d : done) if (!d.load()) all = false; if (all) return true; std::this_thread::sleep_for(std::chrono::milliseconds(1)); }
        return false;
    };
    auto good_push = [&](tbb::concurrent_bounded_queue<TE>& q, long v, int how) {
        switch (how % 3) { case 0: q.push(TE(v)); break; case 1: while (!q.try_push(TE(v))) std::this_thread::yield(); break; default: q.emplace(v); break; }
    };
    for (int pos = 0; pos <= K; pos += (K > 0 ? K : 1)) {   // (a) failing push first, (b) failing push after the good ones but one
        tbb::concurrent_bounded_queue<TE> q; q.set_capacity(K + 4);
        std::vector<long> got(K, -1); std::vector<std::atomic<int>> done(K); for (auto& d : done) d = 0;
        std::vector<std::thread> th;
        for (int k = 0; k < K; ++k) th.emplace_back([&, k] { TE t; q.pop(t); got[k] = t.v; done[k] = 1; });
        auto* rep = q.my_queue_representation;
        for (int i = 0; i < 3000 && (long)rep->head_counter.load() < K; ++i) std::this_thread::sleep_for(std::chrono::milliseconds(1));
        std::this_thread::sleep_for(std::chrono::milliseconds(5 + rng() % 10));
        int fail_at = pos == 0 ? 0 : K - 1;
        for (int i = 0; i < K; ++i) {
            if (i == fail_at) { try { TE bad(-666); q.push(bad); } catch (int) {} }
            good_push(q, 100 + i, variant + i);
        }
        if (!wait_all(done)) { stuck++; std::printf("STUCK %ld LOST %ld EXTRA %ld\n", stuck, lost, extra); std::fflush(stdout); _exit(0); }
        for (auto& x : th) x.join();
        std::vector<long> s(got); std::sort(s.begin(), s.end());
        for (int k = 0; k < K; ++k) if (s[k] != 100 + k) lost++;
        TE t; if (q.try_pop(t)) extra++;
    }
    {   // (c)
        long cap = 2;
        tbb::concurrent_bounded_queue<TE> q; q.set_capacity(cap);
        q.push(TE(-777)); q.push(TE(2));
        std::vector<std::atomic<int>> done(K); for (auto& d : done) d = 0; std::vector<std::thread> th;
        for (int k = 0; k < K; ++k) th.emplace_back([&, k] { q.push(TE(1000 + k)); done[k] = 1; });
        auto* rep = q.my_queue_representation;
        for (int i = 0; i < 3000 && (long)rep->tail_counter.load() < cap + K; ++i) std::this_thread::sleep_for(std::chrono::milliseconds(1));
        std::this_thread::sleep_for(std::chrono::milliseconds(5 + rng() % 10));
        std::vector<long> seen;
        { TE t; try { q.pop(t); seen.push_back(t.v); } catch (int) {} }      // the assignment of the first item throws
        for (int i = 0; i < K + 1; ++i) { TE t; bool ok = false; for (int w = 0; w < 3000 && !(ok = q.try_pop(t)); ++w) std::this_thread::sleep_for(std::chrono::milliseconds(1)); if (ok) seen.push_back(t.v); else break; }
        if (!wait_all(done)) { stuck++; std::printf("STUCK %ld LOST %ld EXTRA %ld\n", stuck, lost, extra); std::fflush(stdout); _exit(0); }
        for (auto& x : th) x.join();
        std::sort(seen.begin(), seen.end());
        std::vector<long> want{2}; for (int k = 0; k < K; ++k) want.push_back(1000 + k);
        if (seen != want) lost++;
    }
    std::printf("STUCK %ld LOST %ld EXTRA %ld\n", stuck, lost, extra);
    return 0;
}

// mode "qthrow": a push whose element constructor throws leaves an invalid entry at its ticket; wherever that ticket lies (first / last slot of a page, any lane, any page-size
// class) the queue must stay a FIFO of the other values: sweep the failing position 0..span-1 for element sizes 8 / 24 / 72 / 136 / 264 bytes, unbounded and bounded queue;
// after the first drain the queue is refilled and drained twice more (a page that was not retired shows up as old values coming out again).
// output: BADFIFO n (positions at which the values popped differ from the values pushed)  FIRST p
template <std::size_t PAD> struct TEP {
    long v = 0; char pad[PAD];
    TEP() = default; explicit TEP(long x) : v(x) {}
    TEP(const TEP& o) : v(o.v) { if (o.v == -666) throw 1; }
    TEP(TEP&& o) : v(o.v) { if (o.v == -666) throw 1; }
    TEP& operator=(const TEP& o) { v = o.v; return *this; }
};
template <class Q, class E> static void qthrow_sweep(int span, long& bad, long& first, int tag) {
    for (int pos = 0; pos < span; ++pos) {
        Q q; long next = 0; std::vector<long> want; bool ok = true;
        for (int round = 0; round < 3 && ok; ++round) {
            int n = span + 40;
            for (int i = 0; i < n; ++i) {
                if (round == 0 && i == pos) { try { E badv(-666); q.push(badv); } catch (int) {} }
                E e(next); q.push(e); want.push_back(next); next++;
            }
            for (std::size_t i = 0; i < want.size(); ++i) { E e; if (!q.try_pop(e) || e.v != want[i]) { ok = false; break; } }
            E extra; if (ok && q.try_pop(extra)) ok = false;
            want.clear();
        }
        if (!ok) { if (!bad) first = tag * 100000 + pos; bad++; }
    }
}
static int do_qthrow() {
    long bad = 0, first = -1;
    qthrow_sweep<tbb::concurrent_queue<TEP<1>>, TEP<1>>(600, bad, first, 1);
    qthrow_sweep<tbb::concurrent_queue<TEP<16>>, TEP<16>>(300, bad, first, 2);
    qthrow_sweep<tbb::concurrent_queue<TEP<64>>, TEP<64>>(160, bad, first, 3);
    qthrow_sweep<tbb::concurrent_queue<TEP<128>>, TEP<128>>(80, bad, first, 4);
    qthrow_sweep<tbb::concurrent_queue<TEP<256>>, TEP<256>>(40, bad, first, 5);
    qthrow_sweep<tbb::concurrent_bounded_queue<TEP<1>>, TEP<1>>(600, bad, first, 6);
    qthrow_sweep<tbb::concurrent_bounded_queue<TEP<128>>, TEP<128>>(80, bad, first, 7);
    std::printf("BADFIFO %ld FIRST %ld\n", bad, first);
    return 0;
}

int main(int argc, char** argv) {
    std::string m = argc > 1 ? argv[1] : "";
    if (m == "qthrow") return do_qthrow();
    if (m == "bthrow") return do_bthrow(atoi(argv[2]), atoi(argv[3]), (unsigned)atoi(argv[4]));
    if (m == "bmixed") return do_bmixed(atoi(argv[2]), atol(argv[3]), (unsigned)atoi(argv[4]));
    if (m == "qidx") return do_qidx();
    if (m == "gate") return do_gate();
    if (m == "bgate") return do_bgate();
    if (m == "abortwb") return do_abortwb();
    if (m == "mt") {
        int Q = atoi(argv[2]), T = atoi(argv[3]); unsigned seed = (unsigned)atoi(argv[4]); int n = atoi(argv[5]);
        if (Q == 0) { tbb::concurrent_queue<long> q; return mt_run(q, T, seed, n, false, 0); }
        tbb::concurrent_bounded_queue<long> q; long cap = 1 + seed % 7; q.set_capacity(cap); return mt_run(q, T, seed, n, true, cap);
    }
    return 2;
}
