// C05 driver: real parallel_for / parallel_for_each / parallel_invoke from /repo's working tree (real threads).
//   drv_for simple        : cases "(b e g)*" -> per triple: n then sorted (begin,end) chunks [simple_partitioner]
//   drv_for chunks        : cases "part P b e g" -> n then sorted chunks   (part: 0 simple 1 auto 2 static 3 affinity)
//   drv_for chunks2d      : cases "part P r0 r1 rg c0 c1 cg" -> n then (r0 r1 c0 c1) chunks
//   drv_for chunks3d      : cases "part P p0 p1 pg r0 r1 rg c0 c1 cg" -> n then 6-tuples
//   drv_for foreach       : cases "P n extra" -> per-element visit counts summary
//   drv_for invoke        : cases "P k" -> k functions each must run once
//   drv_for strided       : cases "(type part P first last step)*" (type 0 int, 1 unsigned, 2 size_t, 3 long long) -> per case: number of calls,
//                           smallest index, largest index, sum of the indices mod 2^64, number of indices seen twice in a row by a thread (sanity)
#include "common.h"
#include <mutex>
#include <algorithm>
#include "oneapi/tbb/parallel_for.h"
#include "oneapi/tbb/parallel_for_each.h"
#include "oneapi/tbb/parallel_invoke.h"
#include "oneapi/tbb/blocked_range2d.h"
#include "oneapi/tbb/blocked_range3d.h"
#include "oneapi/tbb/task_arena.h"
#include "oneapi/tbb/global_control.h"
using namespace vh;
typedef unsigned long long u64;

struct Rec { std::mutex m; std::vector<std::vector<u64>> v; void add(std::vector<u64> x) { std::lock_guard<std::mutex> l(m); v.push_back(std::move(x)); } };

template <class Range, class F>
static void run_part(int part, const Range& r, const F& body, tbb::affinity_partitioner& ap) {
    switch (part) {
    case 0: tbb::parallel_for(r, body, tbb::simple_partitioner()); break;
    case 1: tbb::parallel_for(r, body, tbb::auto_partitioner()); break;
    case 2: tbb::parallel_for(r, body, tbb::static_partitioner()); break;
    default: tbb::parallel_for(r, body, ap); break;
    }
}

static void spin_a_bit(u64 n) { volatile u64 x = 0; for (u64 i = 0; i < n; ++i) x += i; }

template <class Index>
static void strided_case(int part, int P, i128 first, i128 last, i128 step, Out& o) {
    std::atomic<u64> cnt{0}, sum{0}; std::atomic<long long> lo{0}, hi{0}; std::atomic<bool> any{false};
    std::mutex mm; i128 mn = 0, mx = 0; bool have = false;
    auto body = [&](Index k) {
        cnt++; sum += (u64)k;
        std::lock_guard<std::mutex> l(mm);
        i128 v = (i128)k; if (!have || v < mn) mn = v; if (!have || v > mx) mx = v; have = true;
    };
    tbb::task_arena arena(P);
    tbb::affinity_partitioner ap;
    arena.execute([&] {
        Index f = (Index)first, l = (Index)last, s = (Index)step;
        switch (part) {
        case 0: tbb::parallel_for(f, l, s, body, tbb::simple_partitioner()); break;
        case 1: tbb::parallel_for(f, l, s, body, tbb::auto_partitioner()); break;
        case 2: tbb::parallel_for(f, l, s, body, tbb::static_partitioner()); break;
        case 3: tbb::parallel_for(f, l, s, body, ap); break;
        default: tbb::parallel_for(f, l, s, body); break;
        }
    });
    o.put_u64(cnt.load()); o.put(mn); o.put(mx); o.put_u64(sum.load());
}

int main(int argc, char** argv) {
    std::string m = argc > 1 ? argv[1] : "";
    std::vector<i128> c; Out o; Watchdog wd(60.0);
    while (read_case(c)) {
        wd.arm(&o);
        if (m == "rvec") {
            // white-box range pool of auto/affinity partitioner: b e g (op d)*  op 1 d = split_to_fill(d) | 2 = back()+pop_back | 3 = front()+pop_front (size > 1)
            using RV = tbb::detail::d1::range_vector<tbb::blocked_range<long>, 8>;
            RV rv(tbb::blocked_range<long>((long)c[0], (long)c[1], (std::size_t)c[2]));
            for (size_t p = 3; p + 1 < c.size(); p += 2) {
                int op = (int)c[p]; long d = (long)c[p + 1];
                if (op == 1) { if (rv.my_size > 0) rv.split_to_fill((tbb::detail::d1::depth_t)d);   /* work_balance never refills an empty pool */ o.put((long)rv.my_head); o.put((long)rv.my_tail); o.put((long)rv.my_size); }
                else if (op == 2) {
                    if (rv.my_size > 0) { auto r = rv.back(); long dep = rv.back_depth(); rv.pop_back(); o.put(r.begin()); o.put(r.end()); o.put(dep); o.put((long)rv.my_head); o.put((long)rv.my_tail); o.put((long)rv.my_size); }
                    else o.put(-1);
                } else if (op == 3) {
                    if (rv.my_size > 1) { auto r = rv.front(); long dep = rv.front_depth(); rv.pop_front(); o.put(r.begin()); o.put(r.end()); o.put(dep); o.put((long)rv.my_head); o.put((long)rv.my_tail); o.put((long)rv.my_size); }
                    else o.put(-1);
                } else o.put(-2);
            }
            o.put(-7);
            for (int i = 0; i < (int)rv.my_size; ++i) { int idx = ((int)rv.my_tail + i) % 8; o.put(rv.my_pool.begin()[idx].begin()); o.put(rv.my_pool.begin()[idx].end()); o.put((long)rv.my_depth[idx]); }
        } else if (m == "simple") {
            for (size_t i = 0; i + 2 < c.size(); i += 3) {
                u64 b = (u64)c[i], e = (u64)c[i + 1], g = (u64)c[i + 2];
                Rec rec;
                tbb::parallel_for(tbb::blocked_range<u64>(b, e, g), [&](const tbb::blocked_range<u64>& r) { rec.add({r.begin(), r.end()}); }, tbb::simple_partitioner());
                std::sort(rec.v.begin(), rec.v.end());
                o.put_u64(rec.v.size());
                for (auto& x : rec.v) { o.put_u64(x[0]); o.put_u64(x[1]); }
            }
        } else if (m == "psplit") {
            // (size left right)* -> size of the right part produced by blocked_range's proportional splitting constructor
            for (size_t i = 0; i + 2 < c.size(); i += 3) {
                u64 sz = (u64)c[i];
                tbb::blocked_range<u64> r(0, sz, 1);
                tbb::proportional_split ps((size_t)c[i + 1], (size_t)c[i + 2]);
                tbb::blocked_range<u64> r2(r, ps);
                o.put_u64(r2.size());
                if (r.size() + r2.size() != sz || r.end() != r2.begin()) o.word("BROKEN");
            }
        } else if (m == "chunks") {
            int part = (int)c[0], P = (int)c[1]; u64 b = (u64)c[2], e = (u64)c[3], g = (u64)c[4];
            Rec rec; tbb::affinity_partitioner ap;
            tbb::task_arena arena(P);
            int rounds = part == 3 ? 2 : 1;   // affinity: second round replays the recorded affinities
            for (int k = 0; k < rounds; ++k) {
                rec.v.clear();
                arena.execute([&] { run_part(part, tbb::blocked_range<u64>(b, e, g), [&](const tbb::blocked_range<u64>& r) { rec.add({r.begin(), r.end()}); spin_a_bit(200); }, ap); });
            }
            std::sort(rec.v.begin(), rec.v.end());
            o.put_u64(rec.v.size());
            for (auto& x : rec.v) { o.put_u64(x[0]); o.put_u64(x[1]); }
        } else if (m == "chunks2d") {
            int part = (int)c[0], P = (int)c[1];
            Rec rec; tbb::affinity_partitioner ap; tbb::task_arena arena(P);
            tbb::blocked_range2d<u64, u64> r((u64)c[2], (u64)c[3], (u64)c[4], (u64)c[5], (u64)c[6], (u64)c[7]);
            arena.execute([&] { run_part(part, r, [&](const tbb::blocked_range2d<u64, u64>& x) { rec.add({x.rows().begin(), x.rows().end(), x.cols().begin(), x.cols().end()}); spin_a_bit(100); }, ap); });
            std::sort(rec.v.begin(), rec.v.end());
            o.put_u64(rec.v.size());
            for (auto& x : rec.v) for (u64 y : x) o.put_u64(y);
        } else if (m == "chunks3d") {
            int part = (int)c[0], P = (int)c[1];
            Rec rec; tbb::affinity_partitioner ap; tbb::task_arena arena(P);
            tbb::blocked_range3d<u64, u64, u64> r((u64)c[2], (u64)c[3], (u64)c[4], (u64)c[5], (u64)c[6], (u64)c[7], (u64)c[8], (u64)c[9], (u64)c[10]);
            arena.execute([&] { run_part(part, r, [&](const tbb::blocked_range3d<u64, u64, u64>& x) {
                rec.add({x.pages().begin(), x.pages().end(), x.rows().begin(), x.rows().end(), x.cols().begin(), x.cols().end()}); spin_a_bit(100); }, ap); });
            std::sort(rec.v.begin(), rec.v.end());
            o.put_u64(rec.v.size());
            for (auto& x : rec.v) for (u64 y : x) o.put_u64(y);
        } else if (m == "strided") {
            for (size_t i = 0; i + 5 < c.size(); i += 6) {
                int ty = (int)c[i], part = (int)c[i + 1], P = (int)c[i + 2];
                switch (ty) {
                case 0: strided_case<int>(part, P, c[i + 3], c[i + 4], c[i + 5], o); break;
                case 1: strided_case<unsigned>(part, P, c[i + 3], c[i + 4], c[i + 5], o); break;
                case 2: strided_case<size_t>(part, P, c[i + 3], c[i + 4], c[i + 5], o); break;
                default: strided_case<long long>(part, P, c[i + 3], c[i + 4], c[i + 5], o); break;
                }
            }
        } else if (m == "foreach") {
            int P = (int)c[0]; u64 n = (u64)c[1], extra = (u64)c[2];
            // items 0..n-1; item i < extra feeds one more item n+i through the feeder
            std::vector<std::atomic<int>> cnt(n + extra);
            for (auto& x : cnt) x = 0;
            std::vector<u64> items(n); for (u64 i = 0; i < n; ++i) items[i] = i;
            tbb::task_arena arena(P);
            arena.execute([&] {
                tbb::parallel_for_each(items.begin(), items.end(), [&](u64 i, tbb::feeder<u64>& f) {
                    cnt[i]++; if (i < extra) f.add(n + i); });
            });
            u64 bad = 0, first = 0; for (u64 i = 0; i < n + extra; ++i) if (cnt[i] != 1) { if (!bad) first = i; bad++; }
            o.put_u64(bad); o.put_u64(first);
        } else if (m == "invoke") {
            int P = (int)c[0]; int k = (int)c[1];
            std::atomic<int> cnt[10]; for (auto& x : cnt) x = 0;
            tbb::task_arena arena(P);
            arena.execute([&] {
                auto f = [&](int i) { return [&cnt, i] { cnt[i]++; }; };
                switch (k) {
                case 2: tbb::parallel_invoke(f(0), f(1)); break;
                case 3: tbb::parallel_invoke(f(0), f(1), f(2)); break;
                case 4: tbb::parallel_invoke(f(0), f(1), f(2), f(3)); break;
                case 5: tbb::parallel_invoke(f(0), f(1), f(2), f(3), f(4)); break;
                case 7: tbb::parallel_invoke(f(0), f(1), f(2), f(3), f(4), f(5), f(6)); break;
                default: tbb::parallel_invoke(f(0), f(1), f(2), f(3), f(4), f(5), f(6), f(7), f(8), f(9)); k = 10; break;
                }
            });
            u64 bad = 0; for (int i = 0; i < 10; ++i) if (cnt[i] != (i < k ? 1 : 0)) bad++;
            o.put_u64(bad); o.put_u64(0);
        }
        wd.disarm();
        o.flush();
    }
    return 0;
}
