// C06 driver: real parallel_reduce / parallel_deterministic_reduce / parallel_scan / parallel_sort (real threads).
//   reduce  : cases "part P lo hi grain spin" -> event log of a free-monoid Body + final body
//             events: 1 newid fromid 0 (splitting ctor) | 2 id lo hi (operator()) | 3 leftid rightid 0 (join) | 4 leftbody mid hi (offer_work hook); then RES elems
//   dreduce : cases "part P lo hi grain" (part 0 simple / 2 static) -> preorder encoding of the split/join tree (0 lo hi | 1 l r)
//   scan    : cases "part P lo hi grain spin" -> per element: number of final passes, prefix seen correct?; result correct?
//   sort    : cases "P K v0 v1 ..." -> sorts by key v/K (ties!) ; prints 1 if sorted permutation, else 0 and details
//   invsweep: cases "A n desc" -> all n-1 one-inversion inputs sorted in an arena of A slots; prints number left unsorted and the first position
//   pretest : cases "P n" -> sorted input of size n, comparator logs compared pairs; prints sorted list of (i) for pairs (i,i+1)
#include "common.h"
#include <array>
#include <random>
#include <memory>
#include <mutex>
#include <algorithm>
#include <set>
#define ONEAPI_SRC_ONETBB_VERIF 1
struct LBody;
static void verif_offer(const LBody* left_body, long mid, long hi);
template <class B> static void verif_offer(const B*, long, long) {}     // reductions with other bodies are not logged
#define __TBB_VERIF_REDUCE_OFFER(l, r) verif_offer((l).my_body, (r).my_range.begin(), (r).my_range.end())
#include "oneapi/tbb/parallel_reduce.h"
#include "oneapi/tbb/parallel_scan.h"
#include "oneapi/tbb/task_group.h"
#include "oneapi/tbb/task_arena.h"
#include "oneapi/tbb/parallel_sort.h"
#include "oneapi/tbb/blocked_range.h"
#include "oneapi/tbb/global_control.h"
using namespace vh;

static std::mutex g_m;
static std::vector<long> g_log;
static std::atomic<int> g_ids{0};
static long g_spin = 0;
static void logev(long a, long b, long c, long d) { std::lock_guard<std::mutex> l(g_m); g_log.push_back(a); g_log.push_back(b); g_log.push_back(c); g_log.push_back(d); }
static void spin_a_bit(long n) { volatile long x = 0; for (long i = 0; i < n; ++i) x += i; }

struct LBody {
    int id; std::vector<long> acc;
    LBody() : id(g_ids++) {}
    LBody(LBody& o, tbb::split) : id(g_ids++) { logev(1, id, o.id, 0); }
    void operator()(const tbb::blocked_range<long>& r) {
        logev(2, id, r.begin(), r.end());
        for (long i = r.begin(); i != r.end(); ++i) acc.push_back(i);
        if (g_spin) spin_a_bit(g_spin * (1 + (r.begin() * 7919) % 5));
    }
    void join(LBody& rhs) { logev(3, id, rhs.id, 0); acc.insert(acc.end(), rhs.acc.begin(), rhs.acc.end()); }
};

static void verif_offer(const LBody* left_body, long mid, long hi) { logev(4, left_body->id, mid, hi); }

struct TBody {   // builds the split/join tree term: join is neither associative nor commutative
    std::vector<long> enc;
    TBody() {}
    TBody(TBody&, tbb::split) {}
    void operator()(const tbb::blocked_range<long>& r) {
        std::vector<long> leaf{0, r.begin(), r.end()};
        if (enc.empty()) enc = leaf; else { std::vector<long> n{1}; n.insert(n.end(), enc.begin(), enc.end()); n.insert(n.end(), leaf.begin(), leaf.end()); enc = n; }
    }
    void join(TBody& rhs) { std::vector<long> n{1}; n.insert(n.end(), enc.begin(), enc.end()); n.insert(n.end(), rhs.enc.begin(), rhs.enc.end()); enc = n; }
};

// parallel_scan body over the free monoid: sum = list of indices; final pass records the prefix it saw per element
struct SBody {
    std::vector<long> sum;
    std::vector<std::atomic<int>>* finals; std::vector<std::atomic<int>>* okprefix;
    SBody(std::vector<std::atomic<int>>* f, std::vector<std::atomic<int>>* k) : finals(f), okprefix(k) {}
    SBody(SBody& o, tbb::split) : finals(o.finals), okprefix(o.okprefix) {}
    template <class Tag> void operator()(const tbb::blocked_range<long>& r, Tag) {
        for (long i = r.begin(); i != r.end(); ++i) {
            if (g_scan_nest() > 0 && i % g_scan_nest() == 0 && g_scan_helper()) {
                // a nested wait inside the body: while waiting the thread runs other tasks of its arena — possibly the right sibling of this very task
                tbb::task_group tg; std::atomic<bool> done{false};
                g_scan_helper()->enqueue(tg.defer([&] { spin_a_bit(20000 + (unsigned long)(i % 7) * 30000); done = true; }));
                tg.wait();
            }
            if (Tag::is_final_scan()) {
                (*finals)[i]++;
                // the incoming prefix must be exactly lo..i-1 (pre-scan sums are contiguous runs: size + ends determine them)
                bool ok = (long)sum.size() == i - g_scan_lo() && (sum.empty() || (sum.front() == g_scan_lo() && sum.back() == i - 1));
                if (!ok) (*okprefix)[i] = 0;
            }
            sum.push_back(i);
        }
        if (g_spin) spin_a_bit(g_spin);
    }
    void reverse_join(SBody& left) { std::vector<long> n = left.sum; n.insert(n.end(), sum.begin(), sum.end()); sum = n; }
    void assign(SBody& b) { sum = b.sum; }
    static long& g_scan_lo() { static long v = 0; return v; }
    static long& g_scan_nest() { static long v = 0; return v; }
    static tbb::task_arena*& g_scan_helper() { static tbb::task_arena* a = nullptr; return a; }
};

template <class Body>
static void run_reduce(int part, const tbb::blocked_range<long>& r, Body& b, tbb::affinity_partitioner& ap) {
    switch (part) {
    case 0: tbb::parallel_reduce(r, b, tbb::simple_partitioner()); break;
    case 1: tbb::parallel_reduce(r, b, tbb::auto_partitioner()); break;
    case 2: tbb::parallel_reduce(r, b, tbb::static_partitioner()); break;
    default: tbb::parallel_reduce(r, b, ap); break;
    }
}

struct KeyLess { long K; bool operator()(long a, long b) const { return a / K < b / K; } };
struct LogLess {
    const long* base; std::mutex* m; std::set<long>* pairs;
    bool operator()(const long& a, const long& b) const {
        long ia = &a - base, ib = &b - base;
        { std::lock_guard<std::mutex> l(*m); pairs->insert(ia * 1000000 + ib); }
        return a < b;
    }
};

int main(int argc, char** argv) {
    std::string m = argc > 1 ? argv[1] : "";
    std::vector<i128> c; Out o; Watchdog wd(120.0);
    while (read_case(c)) {
        wd.arm(&o);
        if (m == "reduce") {
            int part = (int)c[0], P = (int)c[1]; long lo = (long)c[2], hi = (long)c[3], g = (long)c[4]; g_spin = (long)c[5];
            int reps = c.size() > 6 ? (int)c[6] : 1;
            tbb::global_control gc(tbb::global_control::max_allowed_parallelism, P);
            tbb::affinity_partitioner ap;
            for (int rep = 0; rep < reps; ++rep) {       // affinity_partitioner replays its map on later repetitions
                g_log.clear(); g_ids = 0;
                LBody b;
                run_reduce(part, tbb::blocked_range<long>(lo, hi, g), b, ap);
                if (rep + 1 < reps) continue;
                for (long x : g_log) o.put(x);
                o.word("RES"); o.put(b.id);
                for (long x : b.acc) o.put(x);
            }
        } else if (m == "dreduce") {
            int part = (int)c[0], P = (int)c[1]; long lo = (long)c[2], hi = (long)c[3], g = (long)c[4];
            int form = c.size() > 5 ? (int)c[5] : 0;     // bit0: lambda form, bit1: explicit task_group_context, bit2: explicit partitioner argument
            tbb::global_control gc(tbb::global_control::max_allowed_parallelism, P);
            tbb::blocked_range<long> r(lo, hi, g);
            tbb::task_group_context ctx;
            typedef std::vector<long> V;
            auto func = [](const tbb::blocked_range<long>& rr, V x) { TBody b; b.enc = x; b(rr); return b.enc; };
            auto red = [](V a, V b) { if (a.empty()) return b; if (b.empty()) return a; V n{1}; n.insert(n.end(), a.begin(), a.end()); n.insert(n.end(), b.begin(), b.end()); return n; };
            V res;
            bool lam = form & 1, wctx = form & 2, wpart = (form & 4) || part == 2;
            if (!lam) {
                TBody b;
                if (part == 2) { if (wctx) tbb::parallel_deterministic_reduce(r, b, tbb::static_partitioner(), ctx); else tbb::parallel_deterministic_reduce(r, b, tbb::static_partitioner()); }
                else if (wpart) { if (wctx) tbb::parallel_deterministic_reduce(r, b, tbb::simple_partitioner(), ctx); else tbb::parallel_deterministic_reduce(r, b, tbb::simple_partitioner()); }
                else { if (wctx) tbb::parallel_deterministic_reduce(r, b, ctx); else tbb::parallel_deterministic_reduce(r, b); }
                res = b.enc;
            } else {
                if (part == 2) { res = wctx ? tbb::parallel_deterministic_reduce(r, V(), func, red, tbb::static_partitioner(), ctx) : tbb::parallel_deterministic_reduce(r, V(), func, red, tbb::static_partitioner()); }
                else if (wpart) { res = wctx ? tbb::parallel_deterministic_reduce(r, V(), func, red, tbb::simple_partitioner(), ctx) : tbb::parallel_deterministic_reduce(r, V(), func, red, tbb::simple_partitioner()); }
                else { res = wctx ? tbb::parallel_deterministic_reduce(r, V(), func, red, ctx) : tbb::parallel_deterministic_reduce(r, V(), func, red); }
            }
            for (long x : res) o.put(x);
        } else if (m == "scan") {
            int part = (int)c[0], P = (int)c[1]; long lo = (long)c[2], hi = (long)c[3], g = (long)c[4]; g_spin = (long)c[5];
            // with nested waits on another arena the worker pool must not be capped: a capped pool whose workers all wait for the helper arena starves it (by design)
            std::unique_ptr<tbb::global_control> gc; if (!(c.size() > 6 && c[6] != 0)) gc.reset(new tbb::global_control(tbb::global_control::max_allowed_parallelism, P));
            std::vector<std::atomic<int>> finals(hi > 0 ? hi : 1), okp(hi > 0 ? hi : 1);
            for (auto& x : finals) x = 0; for (auto& x : okp) x = 1;
            SBody::g_scan_lo() = lo;
            SBody::g_scan_nest() = c.size() > 6 ? (long)c[6] : 0;
            tbb::task_arena helper(2, 0); SBody::g_scan_helper() = SBody::g_scan_nest() > 0 ? &helper : nullptr;
            SBody b(&finals, &okp);
            tbb::task_arena main_arena(P > 1 ? P : 2);
            main_arena.execute([&] {
                if (part == 0) tbb::parallel_scan(tbb::blocked_range<long>(lo, hi, g), b, tbb::simple_partitioner());
                else tbb::parallel_scan(tbb::blocked_range<long>(lo, hi, g), b, tbb::auto_partitioner());
            });
            SBody::g_scan_helper() = nullptr;
            long bad_count = 0, bad_prefix = 0;
            for (long i = lo; i < hi; ++i) { if (finals[i] != 1) bad_count++; if (!okp[i]) bad_prefix++; }
            bool res_ok = (long)b.sum.size() == (hi > lo ? hi - lo : 0);
            for (size_t k = 0; k < b.sum.size() && res_ok; ++k) if (b.sum[k] != lo + (long)k) res_ok = false;
            o.put(bad_count); o.put(bad_prefix); o.put(res_ok ? 1 : 0);
        } else if (m == "sort") {
            int P = (int)c[0]; long K = (long)c[1];
            std::vector<long> v; for (size_t i = 2; i < c.size(); ++i) v.push_back((long)c[i]);
            std::vector<long> orig = v;
            tbb::global_control gc(tbb::global_control::max_allowed_parallelism, P);
            tbb::parallel_sort(v.begin(), v.end(), KeyLess{K});
            bool sorted = true; for (size_t i = 1; i < v.size(); ++i) if (v[i] / K < v[i - 1] / K) sorted = false;
            std::vector<long> a = orig, b2 = v; std::sort(a.begin(), a.end()); std::sort(b2.begin(), b2.end());
            o.put(sorted ? 1 : 0); o.put(a == b2 ? 1 : 0);
        } else if (m == "pretest") {
            int P = (int)c[0]; long n = (long)c[1];
            std::vector<long> v(n); for (long i = 0; i < n; ++i) v[i] = i;
            std::mutex pm; std::set<long> pairs;
            tbb::global_control gc(tbb::global_control::max_allowed_parallelism, P);
            tbb::parallel_sort(v.begin(), v.end(), LogLess{v.data(), &pm, &pairs});
            // adjacent pairs (i, i+1) compared in either direction
            std::set<long> adj; long selfcmp = 0;
            for (long p : pairs) { long a = p / 1000000, b = p % 1000000; if (a == b + 1) adj.insert(b); else if (b == a + 1) adj.insert(a); else if (a == b) selfcmp++; else { o.word("NONADJ"); o.put(a); o.put(b); } }
            for (long i : adj) o.put(i);
            bool same = true; for (long i = 0; i < n; ++i) if (v[i] != i) same = false;
            o.word(same ? "KEPT" : "CHANGED");
        } else if (m == "prefixsweep") {
            // A n seed: inputs whose elements from index 9 on are already non-decreasing (with ties) and whose first ten elements run over EVERY non-increasing sequence
            // of {0,1,2,3} plus 400 seeded random sequences of {0..3}: ties and descents inside the part that the serial 10-element probe looks at
            int A = (int)c[0]; long n = (long)c[1]; unsigned seed = (unsigned)c[2];
            long bad = 0, firstbad = -1, count = 0;
            auto body = [&] {
                std::vector<std::array<int, 10>> prefixes;
                for (int a = 0; a <= 10; ++a) for (int b = a; b <= 10; ++b) for (int d = b; d <= 10; ++d) {     // positions where the value drops 3->2, 2->1, 1->0
                    std::array<int, 10> p; for (int i = 0; i < 10; ++i) p[i] = i < a ? 3 : i < b ? 2 : i < d ? 1 : 0; prefixes.push_back(p); }
                std::mt19937 r(seed); for (int k = 0; k < 400; ++k) { std::array<int, 10> p; for (auto& x : p) x = (int)(r() % 4); prefixes.push_back(p); }
                for (auto& p : prefixes) for (int keyed = 0; keyed < 2; ++keyed) {
                    std::vector<long> v(n); for (int i = 0; i < 10; ++i) v[i] = p[i];
                    for (long i = 10; i < n; ++i) v[i] = p[9] + (i - 10) / 40;
                    std::vector<long> want = v; std::sort(want.begin(), want.end());
                    if (keyed) { for (long i = 0; i < n; ++i) v[i] = v[i] * 8 + (i % 8); tbb::parallel_sort(v.begin(), v.end(), [](long x, long y) { return x / 8 < y / 8; }); for (auto& x : v) x /= 8; }
                    else tbb::parallel_sort(v.begin(), v.end());
                    if (v != want) { if (!bad) firstbad = count; bad++; }
                    count++; wd.epoch++;
                }
            };
            if (A > 0) { tbb::task_arena ar(A); ar.execute(body); } else body();
            o.put(bad); o.put(firstbad); o.put(count);
        } else if (m == "invsweep") {
            // A n desc: every input that is sorted except for ONE exchanged adjacent pair must come out sorted (arena of A slots, 0 = default arena)
            int A = (int)c[0]; long n = (long)c[1]; bool desc = c[2] != 0;
            long bad = 0, first = -1;
            auto body = [&] {
                std::vector<long> v(n);
                for (long i = 0; i + 1 < n; ++i) {
                    for (long j = 0; j < n; ++j) v[j] = desc ? n - j : j;
                    std::swap(v[i], v[i + 1]);
                    if (desc) tbb::parallel_sort(v.begin(), v.end(), std::greater<long>()); else tbb::parallel_sort(v.begin(), v.end());
                    bool okk = true; for (long j = 0; j < n; ++j) if (v[j] != (desc ? n - j : j)) { okk = false; break; }
                    if (!okk) { if (!bad) first = i; bad++; }
                    wd.epoch++;
                }
            };
            if (A > 0) { tbb::task_arena ar(A); ar.execute(body); } else body();
            o.put(bad); o.put(first);
        }
        o.flush();
        wd.disarm();
    }
    return 0;
}
