// C19 driver (real threads, real library).
//   once : seed T nthrow inner -> collaborative_call_once by T threads, the first nthrow attempts of the function throw
//   ets  : seed T rounds      -> enumerable_thread_specific / combinable with T threads arriving together
#include "common.h"
#include <random>
#include <set>
#include <mutex>
#include "oneapi/tbb/collaborative_call_once.h"
#include "oneapi/tbb/enumerable_thread_specific.h"
#include "oneapi/tbb/combinable.h"
#include "oneapi/tbb/parallel_for.h"
#include "oneapi/tbb/task_arena.h"
using namespace vh;

struct OnceBoom {};

static int do_once() {
    std::vector<i128> c; Out o; Watchdog wd(30.0);
    while (read_case(c)) {
        unsigned seed = (unsigned)c[0]; int T = (int)c[1]; int nthrow = (int)c[2]; int inner = (int)c[3];
        tbb::collaborative_once_flag flag;
        std::atomic<int> attempts{0}, successes{0}, running{0}, overlap{0}, exc_callers{0}, ok_callers{0}, early_return{0}, go{0};
        std::atomic<bool> completed{false};
        wd.arm(&o);
        std::vector<std::thread> th;
        for (int t = 0; t < T; ++t) th.emplace_back([&, t] {
            std::mt19937 r(seed * 17 + t);
            go++; while (go.load() < T) std::this_thread::yield();
            for (volatile unsigned k = 0; k < (r() % 2000); ++k) {}
            auto body = [&] {
                if (++running != 1) overlap++;                       // two executions of the function at once
                int a = attempts++;
                if (inner) tbb::parallel_for(0, inner, [](int) { for (volatile int k = 0; k < 200; ++k) {} });   // helpers can moonlight here
                --running;
                if (a < nthrow) throw OnceBoom();
                successes++; completed = true;
            };
            try {
                if (inner && t % 2) { tbb::task_arena a(2); a.execute([&] { tbb::collaborative_call_once(flag, body); }); }
                else tbb::collaborative_call_once(flag, body);
                if (!completed.load()) early_return++;              // returned before the successful completion
                ok_callers++;
            } catch (OnceBoom&) { exc_callers++; }
        });
        for (auto& x : th) x.join();
        wd.disarm();
        o.word("SUCC"); o.put(successes.load()); o.word("OVERLAP"); o.put(overlap.load()); o.word("EXC"); o.put(exc_callers.load());
        o.word("OK"); o.put(ok_callers.load()); o.word("EARLY"); o.put(early_return.load()); o.word("ATT"); o.put(attempts.load());
        o.flush();
    }
    return 0;
}

static int do_ets() {
    std::vector<i128> c; Out o; Watchdog wd(30.0);
    while (read_case(c)) {
        unsigned seed = (unsigned)c[0]; int T = (int)c[1]; int rounds = (int)c[2];
        std::atomic<int> inits{0}, go{0}, moved{0};
        tbb::enumerable_thread_specific<long> ets([&] { inits++; return 0L; });
        tbb::combinable<long> comb([] { return 0L; });
        std::vector<long*> addr(T, nullptr);
        wd.arm(&o);
        std::vector<std::thread> th;
        for (int t = 0; t < T; ++t) th.emplace_back([&, t] {
            std::mt19937 r(seed * 131 + t);
            go++; while (go.load() < T) std::this_thread::yield();
            for (int k = 0; k < rounds; ++k) {
                bool exists = false; long& x = ets.local(exists);
                if (k == 0) { addr[t] = &x; if (exists) moved++; } else { if (addr[t] != &x || !exists) moved++; }
                x += 1; comb.local() += 1;
                if (r() % 4 == 0) std::this_thread::yield();
            }
        });
        for (auto& x : th) x.join();
        wd.disarm();
        std::set<long*> distinct(addr.begin(), addr.end());
        long sum = 0, n = 0; for (auto& x : ets) { sum += x; n++; }
        long csum = comb.combine([](long a, long b) { return a + b; });
        o.word("SHARED"); o.put((long)T - (long)distinct.size()); o.word("MOVED"); o.put(moved.load()); o.word("INITS"); o.put(inits.load() - T);
        o.word("ITER"); o.put(n - T); o.word("SUM"); o.put(sum - (long)T * rounds); o.word("CSUM"); o.put(csum - (long)T * rounds);
        o.flush();
    }
    return 0;
}

int main(int argc, char** argv) {
    std::string m = argc > 1 ? argv[1] : "";
    if (m == "once") return do_once();
    if (m == "ets") return do_ets();
    return 2;
}
