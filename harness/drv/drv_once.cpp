// C19 driver (real threads, real library).
//   once : seed T nthrow inner -> collaborative_call_once by T threads, the first nthrow attempts of the function throw
//   ets  : seed T rounds      -> enumerable_thread_specific / combinable with T threads arriving together
#include "common.h"
#include <chrono>
#include <random>
#include <set>
#include <mutex>
#include <condition_variable>
#include <memory>
#include "oneapi/tbb/collaborative_call_once.h"
#include "oneapi/tbb/enumerable_thread_specific.h"
#include "oneapi/tbb/combinable.h"
#include "oneapi/tbb/parallel_for.h"
#include "oneapi/tbb/task_arena.h"
using namespace vh;

struct OnceBoom {};

static int do_once() {
    std::vector<i128> c; Out o; Watchdog wd(30.0);
    while (read_case(c)) {
        unsigned seed = (unsigned)c[0]; int T = (int)c[1]; int nthrow = (int)c[2]; int inner = (int)c[3];
        tbb::collaborative_once_flag flag;
        std::atomic<int> attempts{0}, successes{0}, running{0}, overlap{0}, exc_callers{0}, ok_callers{0}, early_return{0}, go{0};
        std::atomic<bool> completed{false};
        wd.arm(&o);
        std::vector<std::thread> th;
        for (int t = 0; t < T; ++t) th.emplace_back([&, t] {
            std::mt19937 r(seed * 17 + t);
            go++; while (go.load() < T) std::this_thread::yield();
            for (volatile unsigned k = 0; k < (r() % 2000); ++k) {}
            auto body = [&] {
                if (++running != 1) overlap++;                       // two executions of the function at once
                int a = attempts++;
                if (inner) tbb::parallel_for(0, inner, [](int) { for (volatile int k = 0; k < 200; ++k) {} });   // helpers can moonlight here
                --running;
                if (a < nthrow) throw OnceBoom();
                successes++; completed = true;
            };
            try {
                if (inner && t % 2) { tbb::task_arena a(2); a.execute([&] { tbb::collaborative_call_once(flag, body); }); }
                else tbb::collaborative_call_once(flag, body);
                if (!completed.load()) early_return++;              // returned before the successful completion
                ok_callers++;
            } catch (OnceBoom&) { exc_callers++; }
        });
        for (auto& x : th) x.join();
        wd.disarm();
        o.word("SUCC"); o.put(successes.load()); o.word("OVERLAP"); o.put(overlap.load()); o.word("EXC"); o.put(exc_callers.load());
        o.word("OK"); o.put(ok_callers.load()); o.word("EARLY"); o.put(early_return.load()); o.word("ATT"); o.put(attempts.load());
        o.flush();
    }
    return 0;
}

static int do_ets() {
    std::vector<i128> c; Out o; Watchdog wd(30.0);
    while (read_case(c)) {
        unsigned seed = (unsigned)c[0]; int T = (int)c[1]; int rounds = (int)c[2];
        std::atomic<int> inits{0}, go{0}, moved{0};
        tbb::enumerable_thread_specific<long> ets([&] { inits++; return 0L; });
        tbb::combinable<long> comb([] { return 0L; });
        std::vector<long*> addr(T, nullptr);
        wd.arm(&o);
        std::vector<std::thread> th;
        for (int t = 0; t < T; ++t) th.emplace_back([&, t] {
            std::mt19937 r(seed * 131 + t);
            go++; while (go.load() < T) std::this_thread::yield();
            for (int k = 0; k < rounds; ++k) {
                bool exists = false; long& x = ets.local(exists);
                if (k == 0) { addr[t] = &x; if (exists) moved++; } else { if (addr[t] != &x || !exists) moved++; }
                x += 1; comb.local() += 1;
                if (r() % 4 == 0) std::this_thread::yield();
            }
        });
        for (auto& x : th) x.join();
        wd.disarm();
        std::set<long*> distinct(addr.begin(), addr.end());
        long sum = 0, n = 0; for (auto& x : ets) { sum += x; n++; }
        long csum = comb.combine([](long a, long b) { return a + b; });
        o.word("SHARED"); o.put((long)T - (long)distinct.size()); o.word("MOVED"); o.put(moved.load()); o.word("INITS"); o.put(inits.load() - T);
        o.word("ITER"); o.put(n - T); o.word("SUM"); o.put(sum - (long)T * rounds); o.word("CSUM"); o.put(csum - (long)T * rounds);
        o.flush();
    }
    return 0;
}

// mode "etsclear": the container is emptied (clear / copy assignment / move assignment from an empty one) by ONE thread while other threads have used it and
// use it again afterwards, for both key types.  Fully ordered by hand-shakes.  Each round: threads 0..T-1 access (exists must be false the first time, true the
// second, same address); the main thread empties the container; the threads access again: exists must be false, the initialiser must run once per thread, no two
// threads may share an element, size() and iteration must see exactly the threads that accessed since.   input: seed T rounds how(0 clear,1 copy=,2 move=)
// output: STALE a (exists reported true after the container was emptied)  SHARED b  INITS c  SIZE d
template <class ETS> static void etsclear_case(int T, int rounds, int how, long& stale, long& shared, long& initsbad, long& sizebad) {
    std::atomic<int> inits{0};
    ETS ets([&] { inits++; return 0L; });
    std::mutex m; std::condition_variable cv; int phase = 0; std::vector<int> ack(T, 0); bool quit = false;
    std::vector<long*> addr(T, nullptr); std::vector<int> ex(T, 0);
    std::vector<std::thread> th;
    for (int t = 0; t < T; ++t) th.emplace_back([&, t] {
        int seen = 0;
        for (;;) {
            std::unique_lock<std::mutex> lk(m); cv.wait(lk, [&] { return quit || phase != seen; }); if (quit) return; seen = phase; lk.unlock();
            bool exists = false; long& x = ets.local(exists); x += 1;
            lk.lock(); addr[t] = &x; ex[t] = exists ? 1 : 0; ack[t] = seen; cv.notify_all();
        }
    });
    auto step = [&] { std::unique_lock<std::mutex> lk(m); phase++; cv.notify_all(); cv.wait(lk, [&] { for (int a : ack) if (a != phase) return false; return true; }); };
    for (int r = 0; r < rounds; ++r) {
        int before = inits.load();
        step();
        for (int t = 0; t < T; ++t) if (ex[t]) stale++;
        { std::set<long*> d(addr.begin(), addr.end()); shared += T - (long)d.size(); }
        if (inits.load() - before != T) initsbad++;
        { long n = 0; for (auto& x : ets) { (void)x; n++; } if (n != T || (long)ets.size() != T) sizebad++; }
        std::vector<long*> first = addr;
        step();
        for (int t = 0; t < T; ++t) if (!ex[t] || addr[t] != first[t]) stale++;
        if (how == 0) ets.clear();
        else if (how == 1) { ETS empty([&] { inits++; return 0L; }); ets = empty; }
        else { ETS empty([&] { inits++; return 0L; }); ets = std::move(empty); }
        if (ets.size() != 0) sizebad++;
    }
    { std::lock_guard<std::mutex> lk(m); quit = true; cv.notify_all(); }
    for (auto& x : th) x.join();
}
static int do_etsclear() {
    std::vector<i128> c; Out o; Watchdog wd(30.0);
    while (read_case(c)) {
        int T = (int)c[1], rounds = (int)c[2], how = (int)c[3];
        long stale = 0, shared = 0, initsbad = 0, sizebad = 0;
        wd.arm(&o);
        etsclear_case<tbb::enumerable_thread_specific<long>>(T, rounds, how, stale, shared, initsbad, sizebad);
        etsclear_case<tbb::enumerable_thread_specific<long, tbb::cache_aligned_allocator<long>, tbb::ets_key_per_instance>>(T, rounds, how, stale, shared, initsbad, sizebad);
        wd.disarm();
        o.word("STALE"); o.put(stale); o.word("SHARED"); o.put(shared); o.word("INITS"); o.put(initsbad); o.word("SIZE"); o.put(sizebad);
        o.flush();
    }
    return 0;
}

// mode "etscopy": a container that holds the elements of N = 1..9 threads is COPIED (copy construction / copy assignment / copy through combinable); then N + 3 further
// threads (all alive at the same time, so their ids are distinct) access the copy one after the other: each must get its element within 4 s, elements are distinct, size()
// counts them, and no array of the copy's table is filled above one half (white box: the invariant that ends every probe).   input: seed N how(0 copy-ctor, 1 copy=, 2 combinable copy)
// output: STUCK a SHARED b SIZE c DENSE d
static int do_etscopy() {
    std::vector<i128> c; Out o;
    while (read_case(c)) {
        int N = (int)c[1], how = (int)c[2]; int total = 2 * N + 3;
        typedef tbb::enumerable_thread_specific<long> ETS;
        ETS src([] { return 0L; }); tbb::combinable<long> csrc([] { return 0L; });
        ETS* cp = nullptr; tbb::combinable<long>* ccp = nullptr;
        std::mutex m; std::condition_variable cv; int turn = -1; bool quit = false; std::vector<int> donef(total, 0); std::vector<long*> addr(total, nullptr);
        std::vector<std::thread> th;
        for (int t = 0; t < total; ++t) th.emplace_back([&, t] {
            std::unique_lock<std::mutex> lk(m); cv.wait(lk, [&] { return quit || turn == t; }); if (quit) return; lk.unlock();
            long* p;
            if (t < N) { src.local() += 1; csrc.local() += 1; p = &src.local(); }
            else if (how == 2) { ccp->local() += 1; p = &ccp->local(); }
            else { cp->local() += 1; p = &cp->local(); }
            lk.lock(); addr[t] = p; donef[t] = 1; cv.notify_all();
            cv.wait(lk, [&] { return quit; });                     // stay alive: the thread id must not be reused
        });
        long stuck = 0;
        auto run_turn = [&](int t) { std::unique_lock<std::mutex> lk(m); turn = t; cv.notify_all(); return cv.wait_for(lk, std::chrono::seconds(4), [&] { return donef[t] == 1; }); };
        for (int t = 0; t < N; ++t) if (!run_turn(t)) stuck++;
        ETS copy1(src); ETS copy2([] { return 0L; }); copy2 = src; tbb::combinable<long> ccopy(csrc);
        cp = how == 0 ? &copy1 : &copy2; ccp = &ccopy;
        for (int t = N; t < total && !stuck; ++t) if (!run_turn(t)) stuck++;
        if (stuck) { o.word("STUCK"); o.put(stuck); o.word("SHARED"); o.put(0); o.word("SIZE"); o.put(0); o.word("DENSE"); o.put(0); o.flush(); std::_Exit(0); }
        std::set<long*> distinct(addr.begin() + N, addr.end());
        long shared = (long)(total - N) - (long)distinct.size();
        long sizebad = 0, dense = 0;
        if (how != 2) {
            if ((long)cp->size() != (long)total) sizebad++;
            for (auto* a = cp->my_root.load(); a; a = a->next) { size_t used = 0; for (size_t i = 0; i < a->size(); ++i) if (!a->at(i).empty()) used++; if (2 * used > a->size()) dense++; }
        } else { long sum = ccp->combine([](long a, long b) { return a + b; }); if (sum != (long)total) sizebad++; }
        { std::lock_guard<std::mutex> lk(m); quit = true; cv.notify_all(); }
        for (auto& x : th) x.join();
        o.word("STUCK"); o.put(0); o.word("SHARED"); o.put(shared); o.word("SIZE"); o.put(sizebad); o.word("DENSE"); o.put(dense); o.flush();
    }
    return 0;
}

// etsgrow: the growth window of the thread-id table.  An allocator passed to enumerable_thread_specific holds every thread that
// allocates a table array (it has incremented my_count and read my_root, it has not yet published its array) until K threads are
// inside, then releases them together: K threads grow the table at once, from a root that is 0-3 first accesses old.  Then every
// thread accesses again (found in an older array -> re-inserted at the top), then the remaining threads arrive, one by one or in
// further line-ups.  input: seed T pre K   output: the ets counters + DENSE = arrays filled above one half (white box).
struct LineUp { std::mutex m; std::condition_variable cv; int want = 0, inside = 0; unsigned long gen = 0; };
static LineUp* g_lineup = nullptr;
template <class T> struct lineup_allocator {
    using value_type = T;
    lineup_allocator() = default;
    template <class U> lineup_allocator(const lineup_allocator<U>&) {}
    T* allocate(std::size_t n) {
        // table arrays are allocated through the allocator rebound to a pointer-sized type; elements through padded element types (larger)
        LineUp* L = g_lineup;
        if (L && L->want > 1 && sizeof(T) <= sizeof(void*)) {
            std::unique_lock<std::mutex> l(L->m);
            unsigned long my = L->gen;
            if (++L->inside >= L->want) { L->inside = 0; L->gen++; L->cv.notify_all(); }
            else if (!L->cv.wait_for(l, std::chrono::milliseconds(20), [&] { return L->gen != my; })) { L->inside = 0; L->gen++; L->cv.notify_all(); }
        }
        return static_cast<T*>(::operator new(n * sizeof(T)));
    }
    void deallocate(T* p, std::size_t) { ::operator delete(p); }
    template <class U> bool operator==(const lineup_allocator<U>&) const { return true; }
    template <class U> bool operator!=(const lineup_allocator<U>&) const { return false; }
};

static int do_etsgrow() {
    std::vector<i128> c; Out o; Watchdog wd(20.0);
    while (read_case(c)) {
        unsigned seed = (unsigned)c[0]; int T = (int)c[1]; int pre = (int)c[2]; int K = (int)c[3];
        std::mt19937 r(seed);
        LineUp L; g_lineup = &L;
        std::atomic<int> inits{0}, moved{0};
        typedef tbb::enumerable_thread_specific<long, lineup_allocator<long>> ets_t;
        ets_t ets([&] { inits++; return 0L; });
        std::vector<long*> addr(T, nullptr); std::vector<int> accesses(T, 0);
        // every logical participant is its own OS thread that executes commands: 1 = access
        struct Worker { std::mutex m; std::condition_variable cv; int cmd = 0; bool done = true; std::thread th; };
        std::vector<std::unique_ptr<Worker>> w;
        std::atomic<bool> quit{false};
        for (int t = 0; t < T; ++t) { w.emplace_back(new Worker); Worker* me = w.back().get();
            me->th = std::thread([&, t, me] { for (;;) { std::unique_lock<std::mutex> l(me->m); me->cv.wait(l, [&] { return me->cmd != 0 || quit.load(); }); if (quit.load() && me->cmd == 0) return;
                me->cmd = 0; l.unlock();
                bool exists = false; long& x = ets.local(exists);
                if (accesses[t] == 0) { addr[t] = &x; if (exists) moved++; } else if (addr[t] != &x || !exists) moved++;
                accesses[t]++; x += 1;
                l.lock(); me->done = true; me->cv.notify_all(); } }); }
        auto start = [&](int t) { std::lock_guard<std::mutex> l(w[t]->m); w[t]->done = false; w[t]->cmd = 1; w[t]->cv.notify_all(); };
        auto finish = [&](int t) { std::unique_lock<std::mutex> l(w[t]->m); w[t]->cv.wait(l, [&] { return w[t]->done; }); };
        wd.arm(&o);
        int next = 0; long total = 0;
        auto together = [&](int from, int to, int want) { L.want = want; for (int t = from; t < to; ++t) { start(t); total++; } for (int t = from; t < to; ++t) finish(t); L.want = 0; };
        for (; next < pre && next < T; ++next) together(next, next + 1, 0);                 // a few first accesses, one after the other
        while (next < T) {
            int k = std::min(T - next, K > 0 ? K : 1 + (int)(r() % 8));
            together(next, next + k, k);                                                     // k first accesses inside the growth window at once
            next += k;
            if (r() % 3) together(0, next, 0);                                               // everybody again: found below the root -> re-inserted at the top
            if (K > 0 && r() % 2 && next < T) { together(next, next + 1, 0); next++; }       // a late single arrival
        }
        together(0, T, 0);
        wd.disarm();
        quit = true; for (auto& x : w) { { std::lock_guard<std::mutex> l(x->m); x->cv.notify_all(); } x->th.join(); }
        g_lineup = nullptr;
        std::set<long*> distinct(addr.begin(), addr.end());
        long sum = 0, n = 0; for (auto& x : ets) { sum += x; n++; }
        // white box: no array of the table is filled above one half (the code's own invariant: an empty slot ends every probe)
        long dense = 0;
        for (auto* a = ets.my_root.load(); a; a = a->next) { size_t used = 0; for (size_t i = 0; i < a->size(); ++i) if (!a->at(i).empty()) used++; if (2 * used > a->size()) dense++; }
        o.word("SHARED"); o.put((long)T - (long)distinct.size()); o.word("MOVED"); o.put(moved.load()); o.word("INITS"); o.put(inits.load() - T);
        o.word("ITER"); o.put(n - T); o.word("SUM"); o.put(sum - total); o.word("CSUM"); o.put(0); o.word("DENSE"); o.put(dense);
        o.flush();
    }
    return 0;
}

// etsseq: T OS threads, accesses executed one at a time in the given order; white-box dump of the table for the comparison with EtsModel
// input: T tid*   output: my_count, number of arrays, per array in creation order (lg_size, used slots), -7, initialiser calls per thread
static thread_local int tl_index = -1;
static int do_etsseq() {
    std::vector<i128> c; Out o; Watchdog wd(20.0);
    while (read_case(c)) {
        int T = (int)c[0];
        std::vector<int> inits(T, 0);
        tbb::enumerable_thread_specific<long> ets([&] { if (tl_index >= 0) inits[tl_index]++; return 0L; });
        struct Worker { std::mutex m; std::condition_variable cv; int cmd = 0; bool done = true; std::thread th; };
        std::vector<std::unique_ptr<Worker>> w; std::atomic<bool> quit{false};
        for (int t = 0; t < T; ++t) { w.emplace_back(new Worker); Worker* me = w.back().get();
            me->th = std::thread([&, t, me] { tl_index = t; for (;;) { std::unique_lock<std::mutex> l(me->m); me->cv.wait(l, [&] { return me->cmd != 0 || quit.load(); }); if (quit.load() && me->cmd == 0) return;
                me->cmd = 0; l.unlock(); ets.local() += 1; l.lock(); me->done = true; me->cv.notify_all(); } }); }
        wd.arm(&o);
        for (size_t i = 1; i < c.size(); ++i) { int t = (int)c[i]; if (t < 0 || t >= T) continue;
            { std::lock_guard<std::mutex> l(w[t]->m); w[t]->done = false; w[t]->cmd = 1; w[t]->cv.notify_all(); }
            std::unique_lock<std::mutex> l(w[t]->m); w[t]->cv.wait(l, [&] { return w[t]->done; }); }
        wd.disarm();
        quit = true; for (auto& x : w) { { std::lock_guard<std::mutex> l(x->m); x->cv.notify_all(); } x->th.join(); }
        std::vector<std::pair<size_t, size_t>> arrs;
        for (auto* a = ets.my_root.load(); a; a = a->next) { size_t used = 0; for (size_t i = 0; i < a->size(); ++i) if (!a->at(i).empty()) used++; arrs.push_back({a->lg_size, used}); }
        o.put_u64(ets.my_count.load()); o.put_u64(arrs.size());
        for (size_t i = arrs.size(); i-- > 0;) { o.put_u64(arrs[i].first); o.put_u64(arrs[i].second); }
        o.put(-7); for (int t = 0; t < T; ++t) o.put(inits[t]);
        o.flush();
    }
    return 0;
}

int main(int argc, char** argv) {
    std::string m = argc > 1 ? argv[1] : "";
    if (m == "etsseq") return do_etsseq();
    if (m == "once") return do_once();
    if (m == "etscopy") return do_etscopy();
    if (m == "etsclear") return do_etsclear();
    if (m == "etsgrow") return do_etsgrow();
    if (m == "ets") return do_ets();
    return 2;
}
