// C18 driver for the C++ allocator entry points (real libtbb + tbbmalloc).
//   car   : cases "(bytes alignment)*" -> tbb::cache_aligned_resource over a probing upstream resource that records what it is asked for and never
//           really allocates more than 1 MB (larger requests throw std::bad_alloc, like a real resource): per pair the upstream request or -1
//           (refused before the upstream was asked); a leading probe pair (1,1) tells the cache-line padding.  Violations are flagged in-line:
//           SHORT = a pointer was handed out although the upstream block is smaller than payload + slack + header.
//   huge  : cases "n*" -> cache_aligned_allocator<char> / tbb_allocator<char> / scalable_allocator<char> / scalable_memory_resource / cache_aligned_resource
//           over scalable_memory_resource asked for n bytes: 2 = std::bad_alloc, 1 = usable block (first and last byte written), 3 = anything else
#include "common.h"
#include <memory_resource>
#include <new>
#include "oneapi/tbb/cache_aligned_allocator.h"
#include "oneapi/tbb/tbb_allocator.h"
#include "oneapi/tbb/scalable_allocator.h"
using namespace vh;

struct Probe : std::pmr::memory_resource {
    size_t last = 0; int calls = 0; void* blk = nullptr; size_t blk_bytes = 0;
    void* do_allocate(size_t bytes, size_t al) override {
        last = bytes; calls++;
        if (bytes > (1u << 20)) throw std::bad_alloc();
        // the block sits in the middle of a larger one, so that a header written in front of / behind a too small block is diagnosed instead of corrupting the heap
        blk_bytes = bytes; raw = ::operator new(bytes + 16384, std::align_val_t(4096)); blk = (char*)raw + 8192;
        return blk;
    }
    void* raw = nullptr;
    void do_deallocate(void*, size_t, size_t) override { ::operator delete(raw, std::align_val_t(4096)); blk = nullptr; raw = nullptr; }
    bool do_is_equal(const std::pmr::memory_resource& o) const noexcept override { return this == &o; }
};

int main(int argc, char** argv) {
    std::string m = argc > 1 ? argv[1] : "";
    std::vector<i128> c; Out o; Watchdog wd(20.0);
    while (read_case(c)) {
        wd.arm(&o);
        if (m == "car") {
            for (size_t i = 0; i + 1 < c.size(); i += 2) {
                size_t bytes = (size_t)c[i], al = (size_t)c[i + 1];
                Probe up; tbb::cache_aligned_resource r(&up);
                void* p = nullptr; bool threw = false;
                try { p = r.allocate(bytes, al); } catch (std::bad_alloc&) { threw = true; } catch (...) { o.word("OTHER-EXCEPTION"); threw = true; }
                if (up.calls == 0) o.put(-1); else o.put_u64(up.last);
                if (p) {
                    // a pointer was handed out: it must lie inside the upstream block with `bytes` bytes behind it and the header word in front of it
                    char* b = (char*)up.blk; char* q = (char*)p;
                    if (!(b && q - 8 >= b && bytes <= up.blk_bytes && q + bytes <= b + up.blk_bytes)) o.word("SHORT");
                    if (((uintptr_t)p % al) != 0) o.word("MISALIGNED");
                    r.deallocate(p, bytes, al);
                } else if (!threw) o.word("NULL-WITHOUT-EXCEPTION");
            }
        } else {
            for (size_t i = 0; i < c.size(); ++i) {
                size_t n = (size_t)c[i];
                for (int which = 0; which < 5; ++which) {
                    int res = 3; char* p = nullptr;
                    try {
                        if (which == 0) { p = tbb::cache_aligned_allocator<char>().allocate(n); }
                        else if (which == 1) { p = tbb::tbb_allocator<char>().allocate(n); }
                        else if (which == 2) { p = tbb::scalable_allocator<char>().allocate(n); }
                        else if (which == 3) { p = (char*)tbb::scalable_memory_resource()->allocate(n, 64); }
                        else { tbb::cache_aligned_resource r(tbb::scalable_memory_resource()); p = (char*)r.allocate(n, 64); if (p && n <= (1u << 30)) { p[0] = 1; p[n ? n - 1 : 0] = 1; } if (p) { r.deallocate(p, n, 64); p = nullptr; res = 1; } }
                        if (p) { if (n <= (1u << 30)) { p[0] = 1; p[n ? n - 1 : 0] = 1; res = 1; } else res = 4;   /* a "successful" gigantic allocation is not touched */
                            if (which == 0) tbb::cache_aligned_allocator<char>().deallocate(p, n); else if (which == 1) tbb::tbb_allocator<char>().deallocate(p, n);
                            else if (which == 2) tbb::scalable_allocator<char>().deallocate(p, n); else tbb::scalable_memory_resource()->deallocate(p, n, 64); }
                    } catch (std::bad_alloc&) { res = 2; } catch (...) { res = 3; }
                    o.put(res);
                }
            }
        }
        wd.disarm();
        o.flush();
    }
    return 0;
}
