// C16 driver: the real market (src/tbb/market.cpp) with real arena objects (arena::update_request clamping), no threads.
// input: soft nclients (prio maxnw)* then ops (0 i md wd | 1 l 0 0)*.  output per op: delta, then per client (allotted, top)
#include "common.h"
#include "tbb/arena.h"
#include "tbb/market.h"
#include "tbb/thread_request_serializer.h"
using namespace vh;
using namespace tbb::detail::r1;

struct Obs : thread_request_observer {
    int last = 0;
    void update(int delta) override { last += delta; }
};

int main() {
    std::vector<i128> c; Out o;
    while (read_case(c)) {
        size_t p = 0; int soft = (int)c[p++]; int n = (int)c[p++];
        market* m = new market((unsigned)soft);
        Obs obs; m->set_thread_request_observer(obs);
        std::vector<arena*> as; std::vector<pm_client*> cl;
        tbb::detail::d1::constraints cons;
        for (int i = 0; i < n; ++i) {
            int prio = (int)c[p++]; int maxnw = (int)c[p++];
            // num_slots - num_reserved_slots = my_max_num_workers; one reserved slot as task_arena does by default
            arena& a = arena::allocate_arena(nullptr, (unsigned)maxnw + 1, 1, (unsigned)prio);
            pm_client* pc = m->create_client(a);
            m->register_client(pc, cons);
            as.push_back(&a); cl.push_back(pc);
        }
        for (; p + 3 < c.size(); p += 4) {
            int k = (int)c[p], a = (int)c[p + 1], b = (int)c[p + 2], d = (int)c[p + 3];
            obs.last = 0;
            if (k == 0) m->adjust_demand(*cl[a], b, d); else m->set_active_num_workers(a);
            o.put(obs.last);
            for (int i = 0; i < n; ++i) { o.put((long long)as[i]->my_num_workers_allotted.load()); o.put(as[i]->is_top_priority() ? 1 : 0); }
        }
        o.flush();
    }
    return 0;
}
