// C03 driver (real threads, real library): bodies throw; the waiting call must rethrow exactly one exception that was actually thrown,
// only after every body of the group has stopped; nothing starts afterwards; functor copies are destroyed exactly once; the group is reusable.
//   args: P seed n scenario nthrow     scenario: 0 task_group | 1 parallel_for | 2 parallel_reduce | 3 parallel_for_each | 4 parallel_invoke |
//                                                5 parallel_pipeline | 6 flow graph | 7 task_arena::execute | 8 nested parallel_for in task_group | 9 400 warm rounds, simultaneous throwers |
//                                                11 a body throws AFTER a nested library call that completed (re-entrant execute, flow graph, nested loop, isolate, nested task_group) |
//                                                10 the k-th Range split / Body copy (split) constructor throws: parallel_for x 4 partitioners, parallel_reduce
//   output: CAUGHT k (number of exceptions delivered to the caller, must be 1 if any thrower ran else 0) BADVALUE RUNNINGATRETURN STARTEDAFTER LEAK NOTREUSABLE THROWERS k
#include "common.h"
#include <random>
#include <set>
#include <mutex>
#include "oneapi/tbb/task_group.h"
#include "oneapi/tbb/task_arena.h"
#include "oneapi/tbb/parallel_for.h"
#include "oneapi/tbb/parallel_reduce.h"
#include "oneapi/tbb/parallel_for_each.h"
#include "oneapi/tbb/parallel_invoke.h"
#include "oneapi/tbb/parallel_pipeline.h"
#include "oneapi/tbb/flow_graph.h"
#include "oneapi/tbb/global_control.h"
using namespace vh;

static std::atomic<long> g_running{0}, g_started{0}, g_live{0}, g_threw{0};
static std::set<int> g_throwers; static std::mutex g_m; static std::set<int> g_thrown;
static std::atomic<long> g_exlive{0}, g_arrived{0}; static int g_rdv = 0;
struct Ex {      // instance-counted: every exception object the library copies/stores must be destroyed exactly once
    int id; explicit Ex(int i) : id(i) { g_exlive++; } Ex(const Ex& o) : id(o.id) { g_exlive++; } ~Ex() { g_exlive--; }
};
struct Probe {      // functor payload: counts live copies
    Probe() { g_live++; } Probe(const Probe&) { g_live++; } Probe(Probe&&) noexcept { g_live++; } ~Probe() { g_live--; }
};
static void body(int i) {
    g_started++; g_running++;
    for (volatile int k = 0; k < 200 + (i % 5) * 300; ++k) {}
    bool th; { std::lock_guard<std::mutex> l(g_m); th = g_throwers.count(i) != 0; if (th) g_thrown.insert(i); }
    if (th) {
        // throwers meet (bounded wait) so that several catch blocks of the dispatch loop run at almost the same time
        g_arrived++; for (int k = 0; k < 2000000 && g_arrived.load() < g_rdv; ++k) {}
        g_threw++; g_running--; throw Ex(i);
    }
    g_running--;
}

// scenario 10: the exception comes out of the RANGE's splitting constructor or of the BODY's copy / splitting constructor, i.e. from library code that
// is in the middle of dividing the work (parallel_for with four partitioners, parallel_reduce): the k-th such constructor call throws.
static std::atomic<long> g_split_calls{0}, g_copy_calls{0}; static long g_split_at = -1, g_copy_at = -1; static std::atomic<long> g_fault_fired{0};
struct FRange {
    int b, e;
    FRange(int b_, int e_) : b(b_), e(e_) {}
    FRange(const FRange&) = default;
    FRange(FRange& r, tbb::split) : b(0), e(0) {
        if (++g_split_calls == g_split_at) { g_fault_fired++; throw Ex(-1); }
        int m = r.b + (r.e - r.b) / 2; b = m; e = r.e; r.e = m;
    }
    bool empty() const { return b >= e; } bool is_divisible() const { return e - b > 1; }
};
static std::atomic<long> g_body_live{0}, g_body_neg{0};      // Bodies constructed minus destroyed; a destructor on an object that was never constructed drives it negative
struct FBody {
    FBody() { g_body_live++; }
    FBody(const FBody&) { if (++g_copy_calls == g_copy_at) { g_fault_fired++; throw Ex(-2); } g_body_live++; }
    ~FBody() { if (--g_body_live < 0) g_body_neg++; }
    void operator()(const FRange& r) const { for (int i = r.b; i < r.e; ++i) body(1000000 + i); }
};
struct FRBody {
    long sum = 0;
    FRBody() { g_body_live++; }
    FRBody(FRBody&, tbb::split) { if (++g_copy_calls == g_copy_at) { g_fault_fired++; throw Ex(-3); } g_body_live++; }
    ~FRBody() { if (--g_body_live < 0) g_body_neg++; }
    void operator()(const FRange& r) { for (int i = r.b; i < r.e; ++i) { body(1000000 + i); sum += i; } }
    void join(FRBody& o) { sum += o.sum; }
};

int main(int argc, char** argv) {
    int P = atoi(argv[1]); unsigned seed = (unsigned)atoi(argv[2]); int n = atoi(argv[3]); int sc = atoi(argv[4]); int nthrow = atoi(argv[5]);
    Watchdog wd(60.0); Out o; wd.arm(&o);
    tbb::global_control gc(tbb::global_control::max_allowed_parallelism, P);
    std::mt19937 r(seed); while ((int)g_throwers.size() < nthrow && (int)g_throwers.size() < n) g_throwers.insert(r() % n);
    g_rdv = std::min(nthrow, std::max(1, P));
    long caught = 0, badvalue = 0, running_at_return = 0, started_after = 0, notreusable = 0;
    auto guard = [&](auto&& f) {
        try { f(); } catch (Ex& e) { caught++; std::lock_guard<std::mutex> l(g_m); if (e.id >= 0 && !g_thrown.count(e.id)) badvalue++; } catch (...) { caught++; badvalue++; }
        running_at_return = g_running.load();
        long s0 = g_started.load(); std::this_thread::sleep_for(std::chrono::milliseconds(3)); if (g_started.load() != s0) started_after = g_started.load() - s0;
    };
    {
        Probe pr;
        if (sc == 0) {
            tbb::task_group tg;
            guard([&] { for (int i = 0; i < n; ++i) tg.run([i, pr] { body(i); }); tg.wait(); });
            std::atomic<int> again{0}; try { tg.run([&] { again++; }); tg.wait(); } catch (...) { notreusable++; } if (again != 1) notreusable++;
        } else if (sc == 1) {
            guard([&] { tbb::parallel_for(0, n, [pr](int i) { body(i); }); });
        } else if (sc == 2) {
            guard([&] { long s = tbb::parallel_reduce(tbb::blocked_range<int>(0, n), 0L, [pr](const tbb::blocked_range<int>& rg, long a) { for (int i = rg.begin(); i != rg.end(); ++i) { body(i); a += i; } return a; }, std::plus<long>()); (void)s; });
        } else if (sc == 3) {
            std::vector<int> v(n); for (int i = 0; i < n; ++i) v[i] = i;
            guard([&] { tbb::parallel_for_each(v.begin(), v.end(), [pr](int i) { body(i); }); });
        } else if (sc == 4) {
            guard([&] { tbb::parallel_invoke([pr] { body(0); }, [pr] { body(1); }, [pr] { body(2); }, [pr] { body(3); }); });
        } else if (sc == 5) {
            int next = 0;
            guard([&] { tbb::parallel_pipeline(4, tbb::make_filter<void, int>(tbb::filter_mode::serial_in_order, [&](tbb::flow_control& fc) { if (next >= n) { fc.stop(); return 0; } return next++; }) &
                                                   tbb::make_filter<int, void>(tbb::filter_mode::parallel, [pr](int i) { body(i); })); });
        } else if (sc == 6) {
            tbb::flow::graph g;
            tbb::flow::function_node<int, int> f(g, tbb::flow::unlimited, [pr](int i) { body(i); return i; });
            guard([&] { for (int i = 0; i < n; ++i) f.try_put(i); g.wait_for_all(); });
            if (caught && !g.is_cancelled()) notreusable++;
            g.reset(); std::atomic<int> again{0}; tbb::flow::function_node<int, int> f2(g, tbb::flow::serial, [&](int i) { again++; return i; }); f2.try_put(1); g.wait_for_all(); if (again != 1) notreusable++;
        } else if (sc == 7) {
            tbb::task_arena a(std::max(1, P / 2));
            guard([&] { a.execute([&] { tbb::parallel_for(0, n, [pr](int i) { body(i); }); }); });
            int ok = 0; a.execute([&] { ok = 1; }); if (!ok) notreusable++;
        } else if (sc == 11) {
            // a body makes a nested library call that completes normally (execute() on the arena it is already in, a flow graph run to completion, a nested loop,
            // an isolated region, a nested task_group) and throws AFTERWARDS: the exception must still reach the call that waits for the body's own group
            long wrong = 0;
            tbb::task_arena a(std::max(2, P));
            for (int outer = 0; outer < 3; ++outer) for (int pre = 0; pre < 6; ++pre) for (int rep = 0; rep < 4; ++rep) {
                auto nested = [&, pre] {
                    switch (pre) {
                    case 0: a.execute([] {}); break;
                    case 1: { tbb::flow::graph g; tbb::flow::function_node<int, int> f(g, tbb::flow::unlimited, [](int v) { return v; }); f.try_put(1); g.wait_for_all(); } break;
                    case 2: tbb::parallel_for(0, 8, [](int) {}); break;
                    case 3: tbb::this_task_arena::isolate([] { tbb::parallel_for(0, 8, [](int) {}); }); break;
                    case 4: { tbb::task_group t2; t2.run_and_wait([] {}); } break;
                    default: a.execute([] { tbb::parallel_for(0, 8, [](int) {}); }); break;
                    }
                };
                long c0 = 0; bool got = false;
                auto thrower = [&] { nested(); throw Ex(-5); };
                try {
                    a.execute([&] {
                        if (outer == 0) { tbb::task_group tg; tg.run([&] { for (volatile int k = 0; k < 300; ++k) {} }); tg.run_and_wait(thrower); }
                        else if (outer == 1) tbb::parallel_for(0, 4, [&](int i) { if (i == 1) thrower(); });
                        else { tbb::task_group tg; tg.run(thrower); tg.wait(); }
                    });
                } catch (Ex& e) { got = e.id == -5; } catch (...) {}
                (void)c0;
                if (!got) wrong++;
            }
            badvalue = wrong; caught = 0; g_threw = 0;
        } else if (sc == 10) {
            long wrong = 0;
            for (int alg = 0; alg < 5; ++alg) for (int what = 0; what < 2; ++what) for (int k = 1; k <= 6; ++k) {
                g_split_calls = 0; g_copy_calls = 0; g_split_at = what == 0 ? k : -1; g_copy_at = what == 1 ? k : -1; g_fault_fired = 0;
                long c0 = caught; tbb::affinity_partitioner ap;
                guard([&] {
                    FRange rg(0, n);
                    if (alg == 0) tbb::parallel_for(rg, FBody(), tbb::simple_partitioner());
                    else if (alg == 1) tbb::parallel_for(rg, FBody(), tbb::auto_partitioner());
                    else if (alg == 2) tbb::parallel_for(rg, FBody(), tbb::static_partitioner());
                    else if (alg == 3) tbb::parallel_for(rg, FBody(), ap);
                    else { FRBody rb; tbb::parallel_reduce(rg, rb); }
                });
                // the injected fault (if it fired) must reach the caller exactly once; if it did not fire nothing may be thrown
                if ((caught - c0) != (g_fault_fired.load() > 0 ? 1 : 0)) wrong++;
                if (running_at_return) wrong++;
                if (g_body_live.load() != 0 || g_body_neg.load() != 0) { wrong++; g_body_live = 0; g_body_neg = 0; }      // every Body the library created is destroyed exactly once, none that was not created
            }
            g_split_at = g_copy_at = -1;
            badvalue = wrong; caught = 0; g_threw = 0;
        } else if (sc == 9) {
            // many rounds in one process (workers are warm): nthrow bodies of one group throw at the same moment, alternating
            // task_group and parallel_for with an explicit context; after each round every exception object must be gone
            tbb::parallel_for(0, 2000, [](int) { for (volatile int k = 0; k < 2000; ++k) {} });
            long leaks = 0;
            for (int round = 0; round < 400; ++round) {
                g_arrived = 0; g_threw = 0; { std::lock_guard<std::mutex> l(g_m); g_thrown.clear(); g_throwers.clear(); for (int i = 0; i < nthrow; ++i) g_throwers.insert(i); }
                long c0 = caught;
                if (round % 2 == 0) { tbb::task_group tg; guard([&] { for (int i = 0; i < n; ++i) tg.run([i, pr] { body(i); }); tg.wait(); }); }
                else { tbb::task_group_context ctx; guard([&] { tbb::parallel_for(0, n, [pr](int i) { body(i); }, tbb::simple_partitioner(), ctx); }); }
                if (caught - c0 != 1) badvalue++;
                if (g_exlive.load() != 0) { leaks++; g_exlive = 0; }
            }
            caught = (g_threw.load() > 0 ? 1 : 0);        // per-round delivery was checked above
            g_exlive = leaks;
        } else {
            tbb::task_group tg;
            guard([&] { for (int t = 0; t < 4; ++t) tg.run([t, n, pr] { tbb::parallel_for(t * n / 4, (t + 1) * n / 4, [pr](int i) { body(i); }); }); tg.wait(); });
        }
    }
    wd.disarm();
    long expect = g_threw.load() > 0 ? 1 : 0;
    std::printf("CAUGHTDIFF %ld BADVALUE %ld RUNNINGATRETURN %ld STARTEDAFTER %ld LEAK %ld NOTREUSABLE %ld EXCLEAK %ld\n", caught - expect, badvalue, running_at_return, started_after, g_live.load(), notreusable, g_exlive.load());
    return 0;
}
