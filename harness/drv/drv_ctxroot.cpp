// C04 directed replay on REAL threads: a context is bound beneath a parent that has no parent itself (an isolated / root context) while that parent is being cancelled.
// bind_to_impl registers the context and then copies the parent's flag with a load followed by a store; libtbb is compiled under the prelude and the hooks of
// gate/tracelog.h delay accesses to the child's my_cancellation_requested (seeded), which widens the window between that load and that store.
// input: seed rounds perturb      output: MISS n VALID k   (MISS = the parent's cancel_group_execution returned, the child is bound beneath it and is NOT cancelled)
#include "common.h"
#include "gate/tracelog.h"
#include <random>
#include "oneapi/tbb/task_group.h"
#include "oneapi/tbb/parallel_for.h"
#include "oneapi/tbb/task_arena.h"
#include "oneapi/tbb/global_control.h"
using namespace vh;

int main() {
    std::vector<i128> c; Out o; Watchdog wd(120.0);
    tlog::all_threads = true;
    while (read_case(c)) {
        unsigned seed = (unsigned)c[0]; int rounds = (int)c[1]; int perturb = (int)c[2];
        std::mt19937 rng(seed);
        long miss = 0, valid = 0;
        wd.arm(&o);
        for (int r = 0; r < rounds; ++r) {
            tlog::reset(); tlog::perturb = perturb;
            tbb::task_group_context root(tbb::task_group_context::isolated);
            std::atomic<int> phase{0}, cancel_done{0};
            unsigned spinB = rng() % 3000, spinA = rng() % 3000;
            std::thread B([&] { while (!phase.load()) {} for (volatile unsigned k = 0; k < spinB; ++k) {} root.cancel_group_execution(); cancel_done = 1; });
            bool ran = false;
            tbb::parallel_for(0, 1, [&](int) {
                ran = true;
                tbb::task_group_context child;                                   // bound: its parent will be `root`, whose own parent is null
                tlog::reg(&child.my_cancellation_requested, 1, r);
                phase = 1;
                for (volatile unsigned k = 0; k < spinA; ++k) {}
                tbb::parallel_for(0, 2, [](int) {}, child);                      // binds `child` beneath `root`
                while (!cancel_done.load()) std::this_thread::yield();
                bool bound = child.my_parent == &root;
                if (bound) { valid++; if (!child.is_group_execution_cancelled()) miss++; }
                tlog::unreg(&child.my_cancellation_requested);
            }, root);
            if (!ran) phase = 1;
            B.join();
            wd.epoch++;
        }
        wd.disarm();
        o.word("MISS"); o.put(miss); o.word("VALID"); o.put(valid); o.flush();
    }
    return 0;
}
