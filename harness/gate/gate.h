// Deterministic gate: logical threads are real pthreads that run only while they hold the token; every
// std::atomic access (see prelude/verif_atomic.h) is a scheduling point, so the implementation executes exactly
// the interleaving given as a list of thread ids.  Include once, in the driver's main translation unit.
#pragma once
#include <functional>
#include <vector>
#include <string>
#include <cstdio>
#include <cstdint>
#include <cstdlib>
#include <pthread.h>
#include <semaphore.h>

namespace gate {
struct Event { int tid, var, kind, order; unsigned long long before, after; int ok; };
struct VarInfo { const void* addr; int id; bool is_ptr; };
struct Region { uintptr_t base; size_t size; long long label; };
struct LThread {
    pthread_t th; sem_t go; std::function<void()> body; bool finished = false; bool started = false; int tid;
};

static std::vector<Event> trace;
static std::vector<VarInfo> vars;
static std::vector<Region> regions;
static std::vector<LThread*> threads;
static sem_t back;
static thread_local int my_tid = -1;
static bool active = false;
static long steps = 0;

inline void reg_var(const void* addr, int id, bool is_ptr = false) { vars.push_back({addr, id, is_ptr}); }
inline void reg_region(const void* base, size_t size, long long label) { regions.push_back({(uintptr_t)base, size, label}); }
inline void reset() { trace.clear(); vars.clear(); regions.clear(); threads.clear(); steps = 0; }

inline const VarInfo* find_var(const void* a) {
    for (auto& v : vars) if (v.addr == a) return &v;
    return nullptr;
}
// pointers into registered regions become label*1000000 + offset; the low tag bits survive in the offset
inline unsigned long long canon(unsigned long long v) {
    for (auto& r : regions) if (v >= r.base && v < r.base + r.size) return (unsigned long long)(r.label * 1000000 + (long long)(v - r.base));
    return v;
}

inline void yield_to_controller() {
    LThread* t = threads[my_tid];
    sem_post(&back);
    sem_wait(&t->go);
}

inline void* trampoline(void* p) {
    LThread* t = (LThread*)p;
    my_tid = t->tid;
    sem_wait(&t->go);
    t->body();
    t->finished = true;
    sem_post(&back);
    return nullptr;
}

inline int spawn(std::function<void()> body) {
    LThread* t = new LThread();
    t->tid = (int)threads.size(); t->body = std::move(body);
    sem_init(&t->go, 0, 0);
    threads.push_back(t);
    return t->tid;
}

// thread-local event written into the trace (operation results, critical-section bookkeeping)
inline void note(int code, long long a = 0, long long b = 0) {
    trace.push_back({my_tid, 0, 100 + code, 0, (unsigned long long)a, (unsigned long long)b, 1});
}

inline bool grant(int tid) {
    LThread* t = threads[tid];
    if (t->finished) return false;
    if (!t->started) {
        t->started = true;
        // detached: a joinable thread that is never joined keeps its stack mapped; tens of thousands of cases in one process
        // would exhaust the address space and pthread_create would fail silently (the controller then waits for ever)
        int rc = pthread_create(&t->th, nullptr, trampoline, t);
        if (rc != 0) { std::fprintf(stderr, "gate: pthread_create failed (%d)\n", rc); std::fflush(stderr); std::_Exit(97); }
        pthread_detach(t->th);
    }
    sem_post(&t->go);
    sem_wait(&back);
    return true;
}

// Runs the schedule (entries naming finished threads are skipped), then round-robin until every thread finished
// or `cap` further steps were taken. Returns true if all threads finished.
inline bool run(const std::vector<int>& schedule, long cap) {
    sem_init(&back, 0, 0);
    active = true;
    // bring every thread to its first scheduling point (local start-up code carries no shared access)
    for (size_t i = 0; i < threads.size(); ++i) grant((int)i);
    for (int tid : schedule) {
        if (tid < 0 || tid >= (int)threads.size()) continue;
        if (grant(tid)) steps++;
    }
    long extra = 0;
    for (;;) {
        bool all = true, progressed = false;
        for (size_t i = 0; i < threads.size(); ++i) {
            if (threads[i]->finished) continue;
            all = false;
            if (extra >= cap) break;
            if (grant((int)i)) { extra++; progressed = true; }
        }
        if (all) { active = false; return true; }
        if (extra >= cap || !progressed) break;
    }
    trace.push_back({-1, 0, 199, 0, (unsigned long long)extra, 0, 0});   // NOTERM marker
    return false;
}

inline void print_trace(FILE* f = stdout) {
    std::string s;
    char buf[160];
    for (auto& e : trace) {
        snprintf(buf, sizeof buf, "%d %d %d %d %llu %llu %d ", e.tid, e.var, e.kind, e.order, e.before, e.after, e.ok);
        s += buf;
    }
    fputs(s.c_str(), f); fputc('\n', f); fflush(f);
}
}  // namespace gate

extern "C" void verif_sched_point(const void* addr, int kind, int order) {
    if (!gate::active || gate::my_tid < 0) return;
    gate::yield_to_controller();
}
extern "C" void verif_log(const void* addr, int kind, int order, unsigned long long before, unsigned long long after, int ok) {
    if (!gate::active || gate::my_tid < 0) return;
    const gate::VarInfo* v = addr ? gate::find_var(addr) : nullptr;
    int id = addr ? (v ? v->id : -1) : 0;
    if (v && v->is_ptr) { before = gate::canon(before); after = gate::canon(after); }
    gate::trace.push_back({gate::my_tid, id, kind, order, before, after, ok});
}
