// Lock-and-log hooks for trace conformance with REAL threads (no token passing, threads may block in the kernel).
// The translation units of interest are compiled with -include prelude/verif_atomic.h; every std::atomic access calls
// verif_sched_point before and verif_log after.  For a registered address the two hooks bracket the access with one global
// lock, so access + log entry are atomic with respect to every other registered access: the log is the exact order of these
// accesses.  Threads that did not call tlog::enter() (library workers, the watchdog) pass through untouched unless
// tlog::all_threads is set.  Seeded random delays before logged accesses widen few-instruction windows.
// Include once, in the driver's main translation unit (instead of gate.h).
#pragma once
#include <vector>
#include <string>
#include <cstdio>
#include <cstdint>
#include <pthread.h>
#include <unistd.h>
#include <sched.h>

namespace tlog {
struct Ev { int tid, var; long long tag; int kind; unsigned long long before, after; int ok; };
struct Var { const void* addr; int id; long long tag; };
static pthread_mutex_t L = PTHREAD_MUTEX_INITIALIZER;
static Var vars[8192]; static int nvars = 0;
static std::vector<Ev> trace;
static int perturb = 0;              // probability (out of 256) of a delay before a logged access
static bool all_threads = false;     // log registered accesses of every thread (tid = small id assigned on first access)
static int next_auto_tid = 100;
static thread_local int my_tid = -1;
static thread_local bool held = false;
static thread_local int cur = -1;
static thread_local unsigned rs = 12345;
// optional driver callback, called under the lock after an access was logged (dynamic registration)
static void (*on_event)(const Ev&) = nullptr;

inline unsigned rnd() { rs = rs * 1103515245u + 12345u; return (rs >> 8) & 0xffffff; }
inline void enter(int tid, unsigned seed) { my_tid = tid; rs = seed * 2654435761u + (unsigned)tid * 40503u + 1; }
inline void leave() { my_tid = -1; }
// registration: under the lock unless the caller is inside on_event (which already holds it)
inline void reg_locked(const void* addr, int id, long long tag = 0) {
    for (int i = 0; i < nvars; ++i) if (vars[i].addr == addr) { vars[i].id = id; vars[i].tag = tag; return; }
    if (nvars < 8192) vars[nvars++] = {addr, id, tag};
}
inline void reg(const void* addr, int id, long long tag = 0) { pthread_mutex_lock(&L); reg_locked(addr, id, tag); pthread_mutex_unlock(&L); }
inline void unreg(const void* addr) { pthread_mutex_lock(&L); for (int i = 0; i < nvars; ++i) if (vars[i].addr == addr) { vars[i] = vars[--nvars]; break; } pthread_mutex_unlock(&L); }
inline void reset() { pthread_mutex_lock(&L); nvars = 0; trace.clear(); pthread_mutex_unlock(&L); }
inline void note(int code, long long a = 0, long long b = 0, int ok = 1) {
    pthread_mutex_lock(&L); trace.push_back({my_tid, 0, a, 100 + code, (unsigned long long)b, 0, ok}); pthread_mutex_unlock(&L);
}
inline void print(std::string& s) {
    char buf[200];
    for (auto& e : trace) { snprintf(buf, sizeof buf, "%d %d %lld %d %llu %llu %d ", e.tid, e.var, e.tag, e.kind, e.before, e.after, e.ok); s += buf; }
}
}  // namespace tlog

extern "C" void verif_sched_point(const void* addr, int kind, int order) {
    using namespace tlog;
    if (addr == nullptr || (my_tid < 0 && !all_threads)) return;
    pthread_mutex_lock(&L);
    int idx = -1;
    for (int i = 0; i < nvars; ++i) if (vars[i].addr == addr) { idx = i; break; }
    if (idx < 0) { pthread_mutex_unlock(&L); return; }
    if (my_tid < 0) my_tid = next_auto_tid++;
    if (perturb && (int)(rnd() & 255) < perturb) {
        pthread_mutex_unlock(&L);
        unsigned d = rnd() % 4;
        if (d == 0) sched_yield(); else usleep(d * 40);
        pthread_mutex_lock(&L);
        idx = -1;
        for (int i = 0; i < nvars; ++i) if (vars[i].addr == addr) { idx = i; break; }
        if (idx < 0) { pthread_mutex_unlock(&L); return; }
    }
    held = true; cur = idx;
}
extern "C" void verif_log(const void* addr, int kind, int order, unsigned long long before, unsigned long long after, int ok) {
    using namespace tlog;
    if (!held) return;
    Ev e{my_tid, vars[cur].id, vars[cur].tag, kind, before, after, ok};
    trace.push_back(e);
    if (on_event) on_event(e);
    held = false;
    pthread_mutex_unlock(&L);
}
