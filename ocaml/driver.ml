(* Generic runner for the extracted Coq models (trusted glue: parsing/printing only).
   usage: modelrun <runner-name> < cases   — one case per line, integers separated by blanks;
   prints one line of integers per case. Integers are arbitrary-size decimals. *)
open Model

let ten = Zpos (XO (XI (XO XH)))

let z_of_small (i : int) : z =
  (* 0 <= i <= 9 *)
  let rec pos n = if n = 1 then XH else if n land 1 = 1 then XI (pos (n lsr 1)) else XO (pos (n lsr 1)) in
  if i = 0 then Z0 else Zpos (pos i)

let z_of_string (s : string) : z =
  let neg = String.length s > 0 && s.[0] = '-' in
  let start = if neg then 1 else 0 in
  let acc = ref Z0 in
  for i = start to String.length s - 1 do
    let d = Char.code s.[i] - 48 in
    if d < 0 || d > 9 then failwith ("bad integer: " ^ s);
    acc := Z.add (Z.mul !acc ten) (z_of_small d)
  done;
  if neg then Z.sub Z0 !acc else !acc

let rec pos_to_int (p : positive) : int =
  match p with XH -> 1 | XO q -> 2 * pos_to_int q | XI q -> 2 * pos_to_int q + 1

let small_to_int (x : z) : int = match x with Z0 -> 0 | Zpos p -> pos_to_int p | Zneg p -> - (pos_to_int p)

let rec pos_bits (p : positive) : int = match p with XH -> 1 | XO q | XI q -> 1 + pos_bits q

let string_of_z (x : z) : string =
  let small p = pos_bits p <= 60 in
  match x with
  | Z0 -> "0"
  | Zpos p when small p -> string_of_int (pos_to_int p)
  | Zneg p when small p -> string_of_int (- (pos_to_int p))
  | _ ->
    let neg, a = (match x with Zneg p -> true, Zpos p | _ -> false, x) in
    let buf = Buffer.create 32 in
    let rec go (v : z) (acc : char list) =
      match v with
      | Z0 -> acc
      | _ -> let (q, r) = Z.div_eucl v ten in go q (Char.chr (48 + small_to_int r) :: acc)
    in
    let digits = go a [] in
    if neg then Buffer.add_char buf '-';
    List.iter (Buffer.add_char buf) digits;
    Buffer.contents buf

let runners : (string * (z list -> z list)) list = [
  "vec", run_vec;
  "vec_intcast", run_vec_intcast;
  "segidx", run_segidx;
  "cpq", run_cpq;
  "cpqf", run_cpqf;
  "rw", run_rw;
  "simple", run_simple;
  "strided", run_strided;
  "allot", run_allot;
  "msizes", run_msizes;
  "mseq", run_mseq;
  "llo", run_llo;
  "guards", run_guards;
  "car", run_car;
  "pipebuf", run_pipebuf;
  "qidx", run_qidx;
  "bq", run_bq;
  "reduce", run_reduce;
  "dreduce", run_dreduce;
  "hash", run_hash;
  "sol", run_sol;
  "buf", run_buf;
  "lim", run_lim;
  "skip", run_skip;
  "join", run_join;
  "joinr", run_joinr;
  "rvec", run_rvec;
  "fnode", run_fnode;
  "pull", run_pull;
  "mon", run_mon;
  "mon1", run_mon1;
  "deque", run_deque;
  "exc", run_exc;
  "suspend", run_suspend;
  "suspconf", run_suspconf;
  "once", run_once;
  "onceconf", run_onceconf;
  "ets", run_ets;
  "etsseq", run_etsseq;
]

let () =
  if Array.length Sys.argv < 2 then begin
    List.iter (fun (n, _) -> print_endline n) runners; exit 0 end;
  let name = Sys.argv.(1) in
  let f = try List.assoc name runners with Not_found -> (prerr_endline ("unknown runner " ^ name); exit 2) in
  (try
    while true do
      let line = input_line stdin in
      let toks = List.filter (fun s -> s <> "") (String.split_on_char ' ' (String.trim line)) in
      let out = f (List.map z_of_string toks) in
      print_endline (String.concat " " (List.map string_of_z out))
    done
  with End_of_file -> ())
